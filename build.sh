#!/bin/bash
# builds, from /repo's current working tree: gogreement (+race), vcheck (+race). Hooks guard: -tags verif.
set -e
ROOT="$(cd "$(dirname "$0")" && pwd)"
cd "$ROOT"
export VERIF_ROOT="$ROOT"
. ./env.sh
RACE="${1:-0}"
mkdir -p "$VERIF_BUILD"
cp "$VERIF_REPO/go.sum" harness/go.sum
if [ "$VERIF_REPO" != /repo ]; then ( cd harness && go mod edit -replace github.com/a14e/gogreement="$VERIF_REPO" ); fi
# (a failing build must fail this script: never fall back to a binary of an earlier tree)
fail() { echo "build.sh: $1 does not build from $VERIF_REPO" >&2; rm -f "$VERIF_BUILD"/*.new; exit 3; }
( cd "$VERIF_REPO" && go build -tags verif -o "$VERIF_BUILD/gogreement.new" ./cmd/gogreement ) || fail gogreement
mv "$VERIF_BUILD/gogreement.new" "$VERIF_BUILD/gogreement"
( cd harness && go build -tags verif -o "$VERIF_BUILD/vcheck.new" ./cmd/vcheck ) || fail vcheck
mv "$VERIF_BUILD/vcheck.new" "$VERIF_BUILD/vcheck"
if [ "$RACE" = 1 ] && [ -x /opt/veriftools/go1.26.8/bin/go ]; then
  # the same harness built with the second toolchain (GOROOT outside the module cache): std-library overlay workload of C10
  ( cd harness && PATH=/opt/veriftools/go1.26.8/bin:$PATH GOTOOLCHAIN=local go build -tags verif -o "$VERIF_BUILD/vcheck-std.new" ./cmd/vcheck ) || fail vcheck-std
  mv "$VERIF_BUILD/vcheck-std.new" "$VERIF_BUILD/vcheck-std"
fi
if [ "$RACE" = 1 ]; then
  ( cd "$VERIF_REPO" && go build -race -tags verif -o "$VERIF_BUILD/gogreement-race.new" ./cmd/gogreement ) || fail gogreement-race
  mv "$VERIF_BUILD/gogreement-race.new" "$VERIF_BUILD/gogreement-race"
  ( cd harness && go build -race -tags verif -o "$VERIF_BUILD/vcheck-race.new" ./cmd/vcheck ) || fail vcheck-race
  mv "$VERIF_BUILD/vcheck-race.new" "$VERIF_BUILD/vcheck-race"
fi
