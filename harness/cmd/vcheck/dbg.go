package main

import (
	"fmt"
	"os"
	"strconv"

	"verif/harness/internal/gen"
	"verif/harness/internal/ggrun"
)

func init() {
	// vcheck gen <index> <dir> : write program <index> (seed VERIF_SEED) to <dir> and compile-check it
	subcommands["gen"] = func(args []string) {
		i, _ := strconv.Atoi(args[0])
		seed, _ := strconv.ParseInt(os.Getenv("VERIF_SEED"), 10, 64)
		if seed == 0 {
			seed = 1
		}
		spec := gen.Spec{Seed: seed, Index: i, Hostile: i%3 != 0, Tests: i%2 == 0, Excluded: i%4 == 1, Impl: i%5 == 0, PerPair: 12}
		if os.Getenv("VERIF_SAMENAMES") != "" {
			spec.SameNames = true
			spec.Transit = true
		}
		if os.Getenv("VERIF_EXOTIC") != "" {
			spec.Exotic = true
		}
		if os.Getenv("VERIF_TWIN") != "" {
			spec = gen.Spec{Seed: seed + 6000, Index: i, Hostile: i%2 == 0, Impl: i%3 == 0, PerPair: 6, Twin: true, Transit: true, Unrelated: true}
		}
		bt := gen.Build(spec)
		files := gen.Render(bt.P, gen.RenderOpts{})
		os.RemoveAll(args[1])
		ggrun.WriteTree(args[1], files)
		ok, out := ggrun.CompileCheck(args[1])
		fmt.Println("compiles:", ok)
		if !ok {
			fmt.Println(out)
			os.Exit(1)
		}
	}
}
