package main

// C18 — configuration resolves flag > environment > default, for any input strings.
// Events: which planted violations of a probe module a FRESH PROCESS of the real binary reports.
// Oracle: reference resolution + parse rules + reference file filter + reference exclusion table.

import (
	"fmt"
	"os"
	"os/exec"
	"sort"
	"strings"
	"sync"

	"verif/harness/internal/base"
	"verif/harness/internal/gen"
	"verif/harness/internal/ggrun"
)

func init() { register("C18", checkC18) }

var probeFiles = map[string]string{
	"go.mod": "module probe\n\ngo 1.25\n",
	"lib/lib.go": `package lib

// Box is immutable.
// @immutable
// @constructor NewBox
type Box struct {
	N int
}

func NewBox() *Box { return &Box{} }

// Helper is for tests.
// @testonly
func Helper() {}

// Gate is restricted.
// @packageonly nobody
func Gate() {}

type Namer interface{ Name() string }

// Bad does not implement Namer.
// @implements Namer
type Bad struct{}
`,
	"p/p.go": `package p

import "probe/lib"

func Regular() {
	b := lib.NewBox()
	b.N = 1 // PLANT imm IMM01
	_ = lib.Box{} // PLANT ctor CTOR01
	lib.Helper() // PLANT tonl TONL02
	lib.Gate() // PLANT pkgo PKGO02
}
`,
	"p/p_test.go": `package p

import "probe/lib"

func inTest() {
	b := lib.NewBox()
	b.N = 2 // PLANT test IMM01
}
`,
	"p/zz_pool1_x.go": `package p

import "probe/lib"

func pool1() {
	b := lib.NewBox()
	b.N++ // PLANT pool1 IMM03
}
`,
	"p/sub_pool2/y.go": `package sub_pool2

import "probe/lib"

func Pool2() {
	b := lib.NewBox()
	b.N += 2 // PLANT pool2 IMM02
}
`,
	"p/has_testdata_in_name.go": `package p

import "probe/lib"

func dflt() {
	b := lib.NewBox()
	b.N = 3 // PLANT default IMM01
}
`,
}

type plant struct {
	id, file, code string
	line           int
}

func probePlants() []plant {
	var ps []plant
	for name, c := range probeFiles {
		for i, l := range strings.Split(c, "\n") {
			if k := strings.Index(l, "// PLANT "); k >= 0 {
				f := strings.Fields(l[k+len("// PLANT "):])
				ps = append(ps, plant{id: f[0], file: name, code: f[1], line: i + 1})
			}
		}
	}
	// the IMPL03 plant in lib (type Bad)
	for i, l := range strings.Split(probeFiles["lib/lib.go"], "\n") {
		if strings.HasPrefix(l, "type Bad struct") {
			ps = append(ps, plant{id: "impl", file: "lib/lib.go", code: "IMPL03", line: i + 1})
		}
	}
	sort.Slice(ps, func(i, j int) bool { return ps[i].id < ps[j].id })
	return ps
}

// tri-state option value
type optVal struct {
	set bool
	val string
}

func (o optVal) String() string {
	if !o.set {
		return "<unset>"
	}
	return fmt.Sprintf("%q", o.val)
}

// reference parse rules
func refBool(s string) bool {
	s = strings.ToLower(strings.TrimSpace(s))
	switch s {
	case "1", "t", "true", "yes", "on":
		return true
	}
	return false
}

func refList(s string, upper bool) []string {
	out := []string{}
	for _, it := range strings.Split(s, ",") {
		it = strings.TrimSpace(it)
		if it == "" {
			continue
		}
		if upper {
			// codes are ASCII words: only a-z are letters of a code in another case
			it = strings.Map(func(c rune) rune {
				if c >= 'a' && c <= 'z' {
					return c - 32
				}
				return c
			}, it)
		}
		out = append(out, it)
	}
	return out
}

// goFlagBool: the flag package's own parser for boolean flags (strconv.ParseBool spellings only).
func goFlagBool(s string) (bool, bool) {
	switch s {
	case "1", "t", "T", "TRUE", "true", "True":
		return true, true
	case "0", "f", "F", "FALSE", "false", "False":
		return false, true
	}
	return false, false
}

type c18cfg struct {
	flagScan, envScan     optVal
	flagPaths, envPaths   optVal
	flagChecks, envChecks optVal
	bareScanFlag          bool // "-config.scan-tests" without value
	dashes                string
	noTestFile            bool // run on the copy of the probe without p_test.go (go/packages then loads no test binaries: ~50x cheaper)
}

func (c c18cfg) resolve() gen.Cfg {
	var out gen.Cfg
	// scan-tests
	switch {
	case c.bareScanFlag:
		out.ScanTests = true
	case c.flagScan.set:
		out.ScanTests, _ = goFlagBool(c.flagScan.val)
	case c.envScan.set:
		out.ScanTests = refBool(c.envScan.val)
	default:
		out.ScanTests = false
	}
	switch {
	case c.flagPaths.set:
		out.ExcludePaths = refList(c.flagPaths.val, false)
	case c.envPaths.set:
		out.ExcludePaths = refList(c.envPaths.val, false)
	default:
		out.ExcludePaths = []string{"testdata"}
	}
	switch {
	case c.flagChecks.set:
		out.ExcludeChecks = refList(c.flagChecks.val, true)
	case c.envChecks.set:
		out.ExcludeChecks = refList(c.envChecks.val, true)
	}
	return out
}

func (c c18cfg) argv() (args, env []string) {
	d := c.dashes
	if d == "" {
		d = "-"
	}
	if c.bareScanFlag {
		args = append(args, d+"config.scan-tests")
	} else if c.flagScan.set {
		args = append(args, d+"config.scan-tests="+c.flagScan.val)
	}
	if c.flagPaths.set {
		args = append(args, d+"config.exclude-paths="+c.flagPaths.val)
	}
	if c.flagChecks.set {
		args = append(args, d+"config.exclude-checks="+c.flagChecks.val)
	}
	if c.envScan.set {
		env = append(env, "GOGREEMENT_SCAN_TESTS="+c.envScan.val)
	}
	if c.envPaths.set {
		env = append(env, "GOGREEMENT_EXCLUDE_PATHS="+c.envPaths.val)
	}
	if c.envChecks.set {
		env = append(env, "GOGREEMENT_EXCLUDE_CHECKS="+c.envChecks.val)
	}
	return
}

func checkC18(replay string) {
	r := base.NewRun("C18")
	r.Rule = "a probe module with planted violations (one per category in a regular file, one in a _test.go file, one each in a file / directory named after pool tokens and in a file whose name contains the default token 'testdata') is analysed by a fresh process per configuration: full grid {flag absent, empty, value} x {env unset, empty, value} per option, pools of boolean spellings and list spellings, joint random combinations, fuzzed environment strings; the visible set of planted violations must equal the reference resolution flag > env > default (+ reference parse rules, file filter, exclusion table) and the process must end normally (text mode: exit 0 or 3, non-zero iff something is printed); distinct = distinct configurations (argv+env)"
	r.Assume = []string{"GOGREEMENT_ENV_ONLY unset", "boolean FLAG values are restricted to the spellings the flag package accepts (anything else is a usage error of the flag package, not of the tool)"}
	root := ggrun.Scratch()
	defer os.RemoveAll(root)
	ggrun.WriteTree(root, probeFiles)
	rootNT := ggrun.Scratch()
	defer os.RemoveAll(rootNT)
	nt := map[string]string{}
	for k, v := range probeFiles {
		if k != "p/p_test.go" {
			nt[k] = v
		}
	}
	ggrun.WriteTree(rootNT, nt)
	plants := probePlants()
	if ok, out := ggrun.CompileCheck(root); !ok {
		base.Harness("probe module does not compile: %s", out)
	}
	// sanity of the probe itself: with everything visible all plants are reported
	boolEnvPool := []string{"true", "TRUE", "True", "1", "yes", "YES", "Yes", "on", "ON", " on ", "\ttrue\n", "t", "T", "false", "0", "no", "off", "2", "maybe", "y", "enabled", "tru", "truee", "01", "-1", " ", "ｔｒｕｅ", "true,false", "true=1", "on=off", "=true"}
	boolFlagPool := []string{"true", "false", "1", "0", "t", "f", "T", "F", "TRUE", "FALSE", "True", "False"}
	pathsPool := []string{"testdata", " zz_pool1 ", "sub_pool2\t", " testdata", "zz_pool1", "sub_pool2", "zz_pool1,sub_pool2", " zz_pool1 , sub_pool2 ,testdata", ",,zz_pool1,,", "nothing-matches", "ZZ_POOL1", "pool", "p/", "_test.go", "lib.go", "x.go", " ", ",", "zz_pool1 sub_pool2", "/p/", "sub_pool2=zz,zz_pool1", "zz_pool1=", "=zz_pool1", "a=b=c"}
	checksPool := []string{"IMM", " imm01 ", "\tIMM ", "ALL ", " pkgo02", "imm01", "Imm01,ctor", " TONL02 , PKGO ", "ALL", "all", "IMPL03", ",,", "IMM0", "XX", "IMM01,IMM02,IMM03", "ctor01", "PKGO02", "A L L", "IMM;CTOR", "IMM CTOR", "tonl", "ımm", "ımm01", "IMM=x,CTOR", "ALL=", "=ALL", "IMM01=IMM01"}
	var cfgs []c18cfg
	vals := func(pool []string) []optVal {
		out := []optVal{{false, ""}, {true, ""}}
		for _, p := range pool {
			out = append(out, optVal{true, p})
		}
		return out
	}
	// full grid per option (others at default)
	for ei, e := range vals(boolEnvPool) {
		cfgs = append(cfgs, c18cfg{envScan: e})
		for fi, f := range boolFlagPool {
			if !r.Thorough() && (fi+ei)%4 != 0 {
				continue // quick: every env value still meets 3 flag spellings (rotating), thorough: the full product
			}
			cfgs = append(cfgs, c18cfg{envScan: e, flagScan: optVal{true, f}})
		}
		if r.Thorough() || ei%3 == 0 {
			cfgs = append(cfgs, c18cfg{envScan: e, bareScanFlag: true})
		}
	}
	for _, e := range vals(pathsPool) {
		for _, f := range vals(pathsPool) {
			if e.set && f.set && e.val != "" && f.val != "" && (len(cfgs)%3 != 0) && !r.Thorough() {
				// quick: thin out value x value pairs
				cfgs = append(cfgs, c18cfg{envPaths: e, flagPaths: f, envScan: optVal{true, "1"}})
				if len(cfgs)%5 != 0 {
					cfgs = cfgs[:len(cfgs)-1]
				}
				continue
			}
			cfgs = append(cfgs, c18cfg{envPaths: e, flagPaths: f, envScan: optVal{true, "1"}, noTestFile: len(cfgs)%6 != 0})
		}
	}
	for _, e := range vals(checksPool) {
		for _, f := range vals(checksPool) {
			if e.set && f.set && e.val != "" && f.val != "" && !r.Thorough() && (len(e.val)+len(f.val))%4 != 0 {
				continue
			}
			cfgs = append(cfgs, c18cfg{envChecks: e, flagChecks: f, noTestFile: len(cfgs)%6 != 0})
		}
	}
	// joint random combinations and fuzzed env strings
	rng := base.NewRand(r.Seed, "c18")
	nRand := r.Pick(150, 3000)
	fuzz := func() string {
		n := rng.Intn(12)
		var sb strings.Builder
		for i := 0; i < n; i++ {
			switch rng.Intn(6) {
			case 0:
				sb.WriteByte(',')
			case 1:
				sb.WriteByte(' ')
			case 2:
				sb.WriteString(base.Pick(rng, []string{"é", "\t", "=", "\"", "'", "\\", "%s", "*", "..", "/", "ÿ", "\x7f", "\x01"}))
			default:
				sb.WriteByte("abcXYZ019_-./"[rng.Intn(13)])
			}
		}
		return sb.String()
	}
	pickOpt := func(pool []string) optVal {
		switch rng.Intn(5) {
		case 0:
			return optVal{}
		case 1:
			return optVal{true, ""}
		case 2:
			return optVal{true, fuzz()}
		}
		return optVal{true, base.Pick(rng, pool)}
	}
	for i := 0; i < nRand; i++ {
		c := c18cfg{envScan: pickOpt(boolEnvPool), envPaths: pickOpt(pathsPool), envChecks: pickOpt(checksPool), flagPaths: pickOpt(pathsPool), flagChecks: pickOpt(checksPool)}
		switch rng.Intn(4) {
		case 0:
			c.flagScan = optVal{true, base.Pick(rng, boolFlagPool)}
		case 1:
			c.bareScanFlag = true
		}
		if rng.Bool() {
			c.dashes = "--"
		}
		c.noTestFile = rng.Chance(4, 5)
		cfgs = append(cfgs, c)
	}
	var mu sync.Mutex
	visibleHist := map[string]int{}
	base.Par(len(cfgs), 0, func(i int) {
		c := cfgs[i]
		args, env := c.argv()
		want := c.resolve()
		text := i%5 == 0
		root := root
		if c.noTestFile {
			root = rootNT
		}
		res := ggrun.Run(ggrun.Opts{Dir: root, Args: append(args, "./..."), Env: env, Text: text})
		r.Eval(1)
		desc := fmt.Sprintf("argv=%q env=%q testfile=%v", args, env, !c.noTestFile)
		r.Distinct(desc)
		if bad, why := res.Crashed(text); bad {
			r.Violate("config/abnormal-exit", fmt.Sprintf("%s: %s\nstderr: %s", desc, why, head(res.Stderr, 1500)), nil)
			return
		}
		// observed plants
		got := map[string]bool{}
		if text {
			for _, l := range strings.Split(res.Stderr+"\n"+res.Stdout, "\n") {
				for _, p := range plants {
					if strings.Contains(l, fmt.Sprintf("/%s:%d:", p.file, p.line)) && strings.Contains(l, "["+p.code+"]") {
						got[p.id] = true
					}
				}
			}
			printed := strings.Contains(res.Stderr+res.Stdout, "error: [")
			if (res.Exit != 0) != printed {
				r.Violate("config/exit-status-vs-output", fmt.Sprintf("%s: text-mode exit status %d but diagnostics printed=%v", desc, res.Exit, printed), nil)
			}
		} else {
			for _, d := range res.Diags {
				for _, p := range plants {
					if d.File == p.file && d.Line == p.line && d.Code == p.code {
						got[p.id] = true
					}
				}
			}
			// nothing but plants may be reported
			for _, d := range res.Diags {
				ok := false
				for _, p := range plants {
					if d.File == p.file && d.Line == p.line && d.Code == p.code {
						ok = true
					}
				}
				if !ok {
					r.Violate("config/unplanted-diagnostic", fmt.Sprintf("%s: unexpected %s at %s:%d", desc, d.Code, d.File, d.Line), nil)
				}
			}
		}
		exp := map[string]bool{}
		for _, p := range plants {
			if c.noTestFile && p.file == "p/p_test.go" {
				continue
			}
			vis := !want.Excluded(root+"/"+p.file) && !refExcludedList(want.ExcludeChecks, p.code)
			// annotations live in lib/lib.go: if that file is excluded nothing is annotated at all
			if want.Excluded(root + "/lib/lib.go") {
				vis = false
			}
			if vis {
				exp[p.id] = true
			}
		}
		var diff []string
		for _, p := range plants {
			if exp[p.id] != got[p.id] {
				diff = append(diff, fmt.Sprintf("%s(%s %s:%d): expected visible=%v observed=%v", p.id, p.code, p.file, p.line, exp[p.id], got[p.id]))
			}
		}
		if len(diff) > 0 {
			opt := "mixed"
			switch {
			case strings.Contains(strings.Join(diff, " "), "test("):
				opt = "scan-tests"
			case strings.Contains(strings.Join(diff, " "), "pool") || strings.Contains(strings.Join(diff, " "), "default("):
				opt = "exclude-paths"
			default:
				opt = "exclude-checks"
			}
			r.Violate("config/resolution/"+opt, fmt.Sprintf("%s\nreference resolution: %+v\n%s", desc, want, strings.Join(diff, "\n")), map[string]string{"argv.txt": desc})
		}
		// the same configuration through the vet driver (environment and -config.* flags are handed to the vet tool)
		if i%12 == 0 && c.noTestFile {
			cmd := exec.Command("go", append(append([]string{"vet", "-json", "-vettool=" + ggrun.Bin}, args...), "./...")...)
			cmd.Dir = root
			for _, kv := range os.Environ() {
				if !strings.HasPrefix(kv, "GOGREEMENT_") {
					cmd.Env = append(cmd.Env, kv)
				}
			}
			cmd.Env = append(cmd.Env, env...)
			out, verr := cmd.CombinedOutput()
			vd, verrs := ggrun.ParseJSON(string(out), root)
			r.Eval(1)
			if verr != nil || len(verrs) > 0 || strings.Contains(string(out), "panic:") {
				r.Violate("config/vet-driver-failed", fmt.Sprintf("%s: go vet -vettool: %v %v\n%s", desc, verr, verrs, head(string(out), 1500)), nil)
			} else {
				vgot := map[string]bool{}
				for _, d := range vd {
					for _, p := range plants {
						if d.File == p.file && d.Line == p.line && d.Code == p.code {
							vgot[p.id] = true
						}
					}
				}
				var vdiff []string
				for _, p := range plants {
					if p.file == "p/p_test.go" {
						continue
					}
					if exp[p.id] != vgot[p.id] {
						vdiff = append(vdiff, fmt.Sprintf("%s: expected visible=%v, vet driver=%v", p.id, exp[p.id], vgot[p.id]))
					}
				}
				if len(vdiff) > 0 {
					r.Violate("config/resolution-vet-driver", fmt.Sprintf("%s (go vet -vettool)\nreference resolution: %+v\n%s", desc, want, strings.Join(vdiff, "\n")), nil)
				}
				r.Count("configurations_also_run_through_go_vet", 1)
			}
		}
		ks := []string{}
		for k := range got {
			ks = append(ks, k)
		}
		sort.Strings(ks)
		mu.Lock()
		visibleHist[strings.Join(ks, "+")]++
		if i%211 == 0 {
			r.Sample(map[string]any{"argv": args, "env": env, "resolved": fmt.Sprintf("%+v", want), "visible": ks})
		}
		mu.Unlock()
	})
	r.Obs("distinct_visible_sets", len(visibleHist))
	r.Obs("configurations", len(cfgs))
	r.Obs("plants", len(plants))
	r.Finish()
}

func refExcludedList(list []string, code string) bool {
	return refExcluded(strings.Join(list, ","), code)
}
