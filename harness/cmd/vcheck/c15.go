package main

// C15 — the annotation grammar is exactly the documented one.
// Events: results of the real annotations.ReadAllAnnotations / ignore.ReadIgnoreAnnotations on synthetic files.
// Oracle: hand-written recogniser (character scanner, no regular expressions), written from the statement.

import (
	"fmt"
	"go/ast"
	"go/parser"
	"go/token"
	"go/types"
	"sort"
	"strings"
	"sync"
	"sync/atomic"
	"unicode"
	"unicode/utf8"

	"golang.org/x/tools/go/analysis"

	"github.com/a14e/gogreement/src/annotations"
	"github.com/a14e/gogreement/src/config"
	"github.com/a14e/gogreement/src/ignore"

	"verif/harness/internal/base"
)

func init() { register("C15", checkC15) }

const (
	stNo = iota
	stYes
	stFree
)

type recog struct {
	Status int
	Kind   string // implements constructor immutable testonly mutable packageonly ignore
	Ptr    bool
	Pkg    string
	Name   string
	List   []string
}

var refKeywords = []string{"implements", "constructor", "immutable", "testonly", "mutable", "packageonly", "ignore"}

func isBlank(c byte) bool { return c == ' ' || c == '\t' }
func isAlnum(c byte) bool {
	return c >= '0' && c <= '9' || c >= 'a' && c <= 'z' || c >= 'A' && c <= 'Z'
}
func isWord(c byte) bool { return isAlnum(c) || c == '_' }

// hasOdd: white space other than space and tab, invalid UTF-8, or non-ASCII characters that are not letters or digits —
// the statement does not settle these. Non-ASCII letters and digits are identifier characters ("Go identifiers"),
// except in @ignore lists, whose codes are ASCII words (there every non-ASCII character stays unsettled).
func hasOdd(s string, kw string) bool {
	for _, c := range s {
		if c == '\f' || c == '\v' || c == '\r' || c == '\n' || c == 0 || c == utf8.RuneError {
			return true
		}
		if c >= 0x80 && (kw == "ignore" || !(unicode.IsLetter(c) || unicode.IsDigit(c))) {
			return true
		}
	}
	return false
}

func isBlankR(c rune) bool { return c == ' ' || c == '\t' }
func isWordR(c rune) bool {
	return c == '_' || c < 0x80 && isAlnum(byte(c)) || c >= 0x80 && (unicode.IsLetter(c) || unicode.IsDigit(c))
}
func isDigitR(c rune) bool { return c >= '0' && c <= '9' || c >= 0x80 && unicode.IsDigit(c) }

// refRecognise: text is the whole comment token as go/parser delivers it ("//..." or "/*...*/").
func refRecognise(text string) recog {
	if !strings.HasPrefix(text, "//") {
		return recog{Status: stNo}
	}
	s := text[2:]
	i := 0
	for i < len(s) && isBlank(s[i]) {
		i++
	}
	if i < len(s) && (s[i] == '\f' || s[i] == '\v' || s[i] == '\r' || s[i] >= 0x80) {
		if strings.Contains(s, "@") {
			return recog{Status: stFree}
		}
		return recog{Status: stNo}
	}
	if i >= len(s) || s[i] != '@' {
		return recog{Status: stNo}
	}
	kw := ""
	for _, k := range refKeywords {
		if strings.HasPrefix(s[i+1:], k) && len(k) > len(kw) {
			kw = k
		}
	}
	if kw == "" {
		return recog{Status: stNo}
	}
	j := i + 1 + len(kw)
	r := recog{Kind: kw}
	if j < len(s) && !isBlank(s[j]) {
		if s[j] == '\f' || s[j] == '\v' || s[j] == '\r' || s[j] >= 0x80 {
			return recog{Status: stFree, Kind: kw}
		}
		return recog{Status: stNo}
	}
	rest := s[j:]
	if hasOdd(rest, kw) {
		return recog{Status: stFree, Kind: kw}
	}
	k := 0
	for k < len(rest) && isBlank(rest[k]) {
		k++
	}
	arg := []rune(rest[k:])
	atEnd := func(p int) bool { return p >= len(arg) || isBlankR(arg[p]) }
	switch kw {
	case "immutable", "testonly", "mutable":
		r.Status = stYes
		return r
	case "implements":
		p := 0
		if p < len(arg) && arg[p] == '&' {
			r.Ptr = true
			p++
		}
		a := p
		for p < len(arg) && isWordR(arg[p]) {
			p++
		}
		if p == a {
			return recog{Status: stNo}
		}
		first := arg[a:p]
		if p < len(arg) && arg[p] == '.' {
			b := p + 1
			q := b
			for q < len(arg) && isWordR(arg[q]) {
				q++
			}
			if q > b && atEnd(q) {
				r.Pkg, r.Name = string(first), string(arg[b:q])
				r.Status = stYes
				if isDigitR(first[0]) || isDigitR(arg[b]) {
					r.Status = stFree
				}
				return r
			}
			return recog{Status: stNo}
		}
		if atEnd(p) {
			r.Name = string(first)
			r.Status = stYes
			if isDigitR(first[0]) {
				r.Status = stFree
			}
			return r
		}
		return recog{Status: stNo}
	}
	// list kinds
	var itemChar func(c rune, firstChar bool) bool
	switch kw {
	case "constructor":
		itemChar = func(c rune, firstChar bool) bool {
			if firstChar {
				return isWordR(c) && !isDigitR(c)
			}
			return isWordR(c)
		}
	case "ignore":
		itemChar = func(c rune, _ bool) bool { return c < 0x80 && isAlnum(byte(c)) }
	case "packageonly":
		itemChar = func(c rune, _ bool) bool {
			// the characters of Go import paths (cmd/go: letters, digits and -._~+ per element)
			return isWordR(c) || c == '/' || c == '.' || c == '-' || c == '~' || c == '+'
		}
	}
	var items []string
	bestN := -1 // number of items of the longest valid prefix
	bestEnd := -1
	trailingCommaEnd := -1
	p := 0
	for {
		a := p
		for p < len(arg) && itemChar(arg[p], p == a) {
			p++
		}
		if p == a {
			break
		}
		items = append(items, string(arg[a:p]))
		if atEnd(p) {
			bestN, bestEnd = len(items), p
		}
		// what follows the item
		q := p
		for q < len(arg) && isBlankR(arg[q]) {
			q++
		}
		if q < len(arg) && arg[q] == ',' {
			if atEnd(q + 1) {
				trailingCommaEnd = q + 1 // a list ending in a comma: the statement does not say
			}
			q++
			for q < len(arg) && isBlankR(arg[q]) {
				q++
			}
			p = q
			continue
		}
		break
	}
	if trailingCommaEnd > bestEnd {
		return recog{Status: stFree, Kind: kw}
	}
	if bestN <= 0 {
		if kw == "packageonly" {
			// the list is optional; but if text follows the keyword without a blank-separated valid list, it is ignored text
			r.Status = stYes
			return r
		}
		return recog{Status: stNo}
	}
	r.List = append([]string{}, items[:bestN]...)
	if kw == "ignore" {
		for i := range r.List {
			r.List[i] = strings.ToUpper(r.List[i])
		}
	}
	r.Status = stYes
	return r
}

// ---------------------------------------------------------------- running the real readers

type realResult struct {
	byType map[string][]string // type/func/field key -> rendered annotations
	ignore map[int][]string    // line -> codes
}

func fakePass(fset *token.FileSet, files []*ast.File, pkgPath string) *analysis.Pass {
	return &analysis.Pass{Fset: fset, Files: files, Pkg: types.NewPackage(pkgPath, "x"), TypesInfo: &types.Info{}}
}

func renderAnn(pa annotations.PackageAnnotations, pkgPath string) map[string][]string {
	m := map[string][]string{}
	for _, a := range pa.ImplementsAnnotations {
		m[a.OnType] = append(m[a.OnType], fmt.Sprintf("implements ptr=%v pkg=%q name=%q", a.IsPointer, a.PackageName, a.InterfaceName))
	}
	for _, a := range pa.ConstructorAnnotations {
		m[a.OnType] = append(m[a.OnType], fmt.Sprintf("constructor %q", a.ConstructorNames))
	}
	for _, a := range pa.ImmutableAnnotations {
		m[a.OnType] = append(m[a.OnType], "immutable")
	}
	for _, a := range pa.TestonlyAnnotations {
		key := a.ObjectName
		if a.ReceiverType != "" {
			key = a.ReceiverType + "." + a.ObjectName
		}
		m[key] = append(m[key], "testonly")
	}
	for _, a := range pa.MutableAnnotations {
		m[a.OnType+"."+a.FieldName] = append(m[a.OnType+"."+a.FieldName], "mutable")
	}
	for _, a := range pa.PackageOnlyAnnotations {
		key := a.ObjectName
		if a.ReceiverType != "" {
			key = a.ReceiverType + "." + a.ObjectName
		}
		var rest []string
		for i, p := range a.AllowedPackages {
			if i == 0 && p == pkgPath {
				continue // the declaring package is always allowed
			}
			rest = append(rest, p)
		}
		m[key] = append(m[key], fmt.Sprintf("packageonly %q", rest))
	}
	return m
}

func expectString(r recog) string {
	switch r.Kind {
	case "implements":
		return fmt.Sprintf("implements ptr=%v pkg=%q name=%q", r.Ptr, r.Pkg, r.Name)
	case "constructor":
		return fmt.Sprintf("constructor %q", r.List)
	case "immutable":
		return "immutable"
	case "testonly":
		return "testonly"
	case "mutable":
		return "mutable"
	case "packageonly":
		var l []string
		l = append(l, r.List...)
		return fmt.Sprintf("packageonly %q", l)
	}
	return ""
}

// judgeBatch builds one synthetic file from candidate comment texts and compares the real readers with the recogniser.
// site: "type" | "func" | "field"
func judgeBatch(r *base.Run, cands []string, site string, counts *[3]int64) {
	var sb strings.Builder
	sb.WriteString("package x\n\n")
	lineOf := make([]int, len(cands))
	line := 3
	for i, c := range cands {
		switch site {
		case "type":
			sb.WriteString(c + "\ntype T" + fmt.Sprint(i) + " struct{}\n\n")
			lineOf[i] = line
			line += 3
		case "func":
			sb.WriteString(c + "\nfunc F" + fmt.Sprint(i) + "() {}\n\n")
			lineOf[i] = line
			line += 3
		case "method":
			sb.WriteString(c + "\nfunc (r *R) M" + fmt.Sprint(i) + "() {}\n\n")
			lineOf[i] = line
			line += 3
		case "field":
			sb.WriteString("// @immutable\ntype S" + fmt.Sprint(i) + " struct {\n\t" + c + "\n\tf int\n}\n\n")
			lineOf[i] = line + 2
			line += 6
		}
	}
	if site == "method" {
		sb.WriteString("type R struct{}\n")
	}
	src := sb.String()
	fset := token.NewFileSet()
	f, err := parser.ParseFile(fset, "/virtual/c15.go", src, parser.ParseComments)
	if err != nil {
		base.Harness("C15 synthetic file does not parse: %v", err)
	}
	pass := fakePass(fset, []*ast.File{f}, "example.com/x")
	cfg := config.New(false, []string{}, []string{})
	pa := annotations.ReadAllAnnotations(cfg, pass)
	got := renderAnn(pa, "example.com/x")
	is := ignore.ReadIgnoreAnnotations(cfg, pass)
	ign := map[int][]string{}
	if is != nil {
		for _, m := range is.Markers {
			ign[fset.Position(m.StartPos).Line] = append(ign[fset.Position(m.StartPos).Line], strings.Join(m.Codes, ","))
		}
	}
	for i, c := range cands {
		rec := refRecognise(c)
		counts[rec.Status]++
		if rec.Status == stFree {
			continue
		}
		var key string
		switch site {
		case "type":
			key = "T" + fmt.Sprint(i)
		case "func":
			key = "F" + fmt.Sprint(i)
		case "method":
			key = "R.M" + fmt.Sprint(i)
		case "field":
			key = "S" + fmt.Sprint(i) + ".f"
		}
		var want []string
		effective := map[string]map[string]bool{
			"type":   {"implements": true, "constructor": true, "immutable": true, "testonly": true, "packageonly": true},
			"func":   {"testonly": true, "packageonly": true},
			"method": {"testonly": true, "packageonly": true},
			"field":  {"mutable": true},
		}
		if rec.Status == stYes && effective[site][rec.Kind] {
			want = []string{expectString(rec)}
		}
		g := append([]string{}, got[key]...)
		if site == "field" {
			// the struct itself carries @immutable on purpose
		}
		sort.Strings(g)
		if strings.Join(g, ";") != strings.Join(want, ";") {
			dir := "recognised-but-should-not"
			if len(want) > 0 && len(g) == 0 {
				dir = "not-recognised-but-should"
			} else if len(want) > 0 {
				dir = "wrong-arguments"
			}
			kind := rec.Kind
			if kind == "" {
				kind = "none"
			}
			r.Violate("grammar/"+site+"/"+dir+"/"+kind, fmt.Sprintf("comment %q as doc of a %s: reference says %v, real reader returned %v", c, site, want, g), map[string]string{"file.go": src})
		}
		// ignore reader
		var wantIgn []string
		if rec.Status == stYes && rec.Kind == "ignore" {
			wantIgn = []string{strings.Join(rec.List, ",")}
		}
		gi := ign[lineOf[i]]
		if strings.Join(gi, ";") != strings.Join(wantIgn, ";") {
			r.Violate("grammar/ignore/"+fmt.Sprint(len(wantIgn) > 0), fmt.Sprintf("comment %q: reference @ignore codes %v, real reader %v", c, wantIgn, gi), map[string]string{"file.go": src})
		}
	}
}

func checkC15(replay string) {
	r := base.NewRun("C15")
	r.Rule = "every candidate comment line is the doc comment of its own declaration in a synthetic file; the real ReadAllAnnotations / ReadIgnoreAnnotations results are compared with a hand-written recogniser: structured exhaustive lines = 8 prefixes (incl. commented-out annotations '// // @x', '/// @x') x 15 keywords/near-keywords x 4 separators x all argument token sequences of length <= N over a 15-token alphabet (N=3 quick, 4 thorough), plus fuzzed mutations of valid annotations, plus all attachment sites x keywords; distinct = distinct candidate lines judged with a determinate (non-FREE) reference verdict"
	r.Assume = []string{"recogniser written from the statement (space/tab blanks, longest comma-list prefix followed by end or blank)", "FREE: trailing-comma lists, names starting with a digit, white space other than space/tab, non-ASCII"}
	prefixes := []string{"", " ", "\t", "  ", "x ", "/", "// ", "/ "}
	kws := []string{"@implements", "@constructor", "@immutable", "@testonly", "@mutable", "@packageonly", "@ignore", "@Immutable", "@immutablex", "@ignored", "@", "@Constructor", "@PACKAGEONLY", "@Testonly", "@Ignore"}
	seps := []string{"", " ", "\t", "  "}
	toks := []string{" ", "\t", "&", ".", ",", "New", "_x1", "io", "a/b-c.d", "IMM01", "imm", "9a", "$", "@constructor", "@testonly", "Нов1"}
	maxLen := r.Pick(3, 4)
	// enumerate argument sequences
	var seqs []string
	var rec func(cur string, depth int)
	rec = func(cur string, depth int) {
		seqs = append(seqs, cur)
		if depth == maxLen {
			return
		}
		for _, t := range toks {
			rec(cur+t, depth+1)
		}
	}
	rec("", 0)
	type head3 struct{ p, k, s string }
	var heads []head3
	for _, p := range prefixes {
		for _, k := range kws {
			for _, s := range seps {
				heads = append(heads, head3{p, k, s})
			}
		}
	}
	var counts [3]int64
	var total int64
	var mu sync.Mutex
	const batch = 2000
	sites := []string{"type", "func", "field", "method"}
	base.Par(len(heads), 0, func(hi int) {
		h := heads[hi]
		var local [3]int64
		site := "type"
		switch {
		case h.k == "@mutable":
			site = "field"
		case (h.k == "@testonly" || h.k == "@packageonly") && hi%2 == 1:
			site = sites[1+2*(hi%4/2)] // func or method
			if site == "field" {
				site = "func"
			}
		}
		for a := 0; a < len(seqs); a += batch {
			b := a + batch
			if b > len(seqs) {
				b = len(seqs)
			}
			cands := make([]string, 0, b-a)
			for _, sq := range seqs[a:b] {
				cands = append(cands, "//"+h.p+h.k+h.s+sq)
			}
			judgeBatch(r, cands, site, &local)
			atomic.AddInt64(&total, int64(len(cands)))
		}
		mu.Lock()
		for i := range counts {
			counts[i] += local[i]
		}
		mu.Unlock()
	})
	r.Obs("structured_lines", total)
	r.Obs("structured_max_args", maxLen)
	// fuzz: mutations of valid annotations
	nFuzz := r.Pick(60000, 2000000)
	seeds := []string{"// @immutable", "// @testonly", "// @mutable", "// @constructor New, Create", "// @constructor New", "// @implements &io.Reader", "// @implements Shape extra text",
		"// @packageonly a, github.com/x/y-z.v2", "// @packageonly", "// @packageonly git.sr.ht/~user/mod, a+b", "// @packageonly x~y text", "// @packageonly a+b/c, d", "// @ignore IMM01, ctor", "// @Constructor New is not @constructor", "// @Packageonly a/b see @packageonly", "// @IGNORE IMM01 or @ignore", "// @ignore ALL because", "//@immutable", "//\t@constructor\tA ,B", "// @immutable - unlike @constructor, no args", "// @packageonly (see also @testonly)", "// @testonly @immutable",
		"// @constructor Новый, Create", "// @constructor New, Создать rest", "// @implements &π.Читатель", "// @implements Интерфейс extra", "// @packageonly пакет/π, a", "// @ignore IMM01, ctör"}
	alphabet := " \t,&.@/_-$;:()abzAZ09é\f\v~+π٣"
	nb := (nFuzz + batch - 1) / batch
	base.Par(nb, 0, func(bi int) {
		rg := base.NewRand(r.Seed, fmt.Sprintf("c15f-%d", bi))
		cands := make([]string, 0, batch)
		for k := 0; k < batch; k++ {
			s := []byte(base.Pick(rg, seeds))
			for m := 0; m < 1+rg.Intn(4); m++ {
				switch rg.Intn(4) {
				case 0: // insert
					p := rg.Intn(len(s) + 1)
					c := alphabet[rg.Intn(len(alphabet))]
					s = append(s[:p], append([]byte{c}, s[p:]...)...)
				case 1: // delete
					if len(s) > 3 {
						p := 2 + rg.Intn(len(s)-2)
						s = append(s[:p], s[p+1:]...)
					}
				case 2: // replace
					if len(s) > 2 {
						p := 2 + rg.Intn(len(s)-2)
						s[p] = alphabet[rg.Intn(len(alphabet))]
					}
				case 3: // toggle case
					if len(s) > 2 {
						p := 2 + rg.Intn(len(s)-2)
						if s[p] >= 'a' && s[p] <= 'z' {
							s[p] -= 32
						} else if s[p] >= 'A' && s[p] <= 'Z' {
							s[p] += 32
						}
					}
				}
			}
			str := strings.ToValidUTF8(string(s), "?")
			if !strings.HasPrefix(str, "//") || strings.HasPrefix(str, "//line") || strings.HasPrefix(str, "//go:") || strings.HasPrefix(str, "//export") {
				str = "// " + str
			}
			cands = append(cands, str)
		}
		var local [3]int64
		judgeBatch(r, cands, []string{"type", "func", "field", "method"}[bi%4], &local)
		mu.Lock()
		for i := range counts {
			counts[i] += local[i]
		}
		mu.Unlock()
		atomic.AddInt64(&total, int64(len(cands)))
	})
	c15Attachment(r)
	c15BlankConsistency(r)
	r.Eval(int(total))
	r.SetDistinctN(int(counts[stNo] + counts[stYes]))
	r.Obs("reference_not_recognised", counts[stNo])
	r.Obs("reference_recognised", counts[stYes])
	r.Obs("reference_free", counts[stFree])
	r.Exhaustive = true
	for _, s := range []string{"// @constructor New ,a/b", "//\t@packageonly a/b-c.d, io $", "// @implements &io.Reader tail", "// @ignore imm,IMM01 text", "// @immutablex", "// @constructor New,"} {
		rc := refRecognise(s)
		r.Sample(map[string]any{"line": s, "reference": fmt.Sprintf("%+v", rc)})
	}
	r.Finish()
}

// c15Attachment: every keyword at every attachment site; only the documented sites take effect.
func c15Attachment(r *base.Run) {
	anns := map[string]string{"implements": "// @implements Shape", "constructor": "// @constructor New", "immutable": "// @immutable", "testonly": "// @testonly", "mutable": "// @mutable", "packageonly": "// @packageonly a/b"}
	type site struct {
		name string
		src  func(a string) string // file body after the package clause; the annotated item is named X / X.f
		key  string
		eff  map[string]bool
	}
	typeEff := map[string]bool{"implements": true, "constructor": true, "immutable": true, "testonly": true, "packageonly": true}
	funcEff := map[string]bool{"testonly": true, "packageonly": true}
	sites := []site{
		{"type-spec-doc", func(a string) string { return a + "\ntype X struct{ f int }\n" }, "X", typeEff},
		{"type-spec-doc-inside-group", func(a string) string { return "type (\n\t" + a + "\n\tX struct{ f int }\n)\n" }, "X", typeEff},
		{"spec-doc-inside-group-followed-by-undocumented-specs", func(a string) string {
			return "type (\n\tW struct{ h int }\n\n\t" + a + "\n\tX struct{ f int }\n\tY struct{ g int }\n\n\tZ struct{ k int }\n)\n"
		}, "X", typeEff},
		{"type-spec-doc-inside-documented-group", func(a string) string {
			return "// Model types of the package.\ntype (\n\t" + a + "\n\tX struct{ f int }\n\n\t// Y is plain.\n\tY struct{ g int }\n)\n"
		}, "X", typeEff},
		{"func-doc", func(a string) string { return a + "\nfunc X() {}\n" }, "X", funcEff},
		{"method-doc", func(a string) string { return "type R struct{}\n\n" + a + "\nfunc (r *R) X() {}\n" }, "R.X", funcEff},
		{"field-doc-immutable-struct", func(a string) string { return "// @immutable\ntype X struct {\n\t" + a + "\n\tf int\n}\n" }, "X.f", map[string]bool{"mutable": true}},
		{"field-doc-plain-struct", func(a string) string { return "type X struct {\n\t" + a + "\n\tf int\n}\n" }, "X.f", nil},
		{"field-trailing-comment", func(a string) string { return "// @immutable\ntype X struct {\n\tf int " + a + "\n}\n" }, "X.f", nil},
		{"type-trailing-comment", func(a string) string { return "type X struct{ f int } " + a + "\n" }, "X", nil},
		{"local-type-doc", func(a string) string { return "func g() {\n\t" + a + "\n\ttype X struct{ f int }\n\tvar _ X\n}\n" }, "X", nil},
		{"local-type-doc-in-pkglevel-closure", func(a string) string {
			return "var table = map[string]func(){\n\t\"k\": func() {\n\t\t" + a + "\n\t\ttype X struct{ f int }\n\t\tvar _ X\n\t},\n}\n"
		}, "X", nil},
		{"local-type-doc-in-var-initialiser", func(a string) string {
			return "var run = func() int {\n\t" + a + "\n\ttype X struct{ f int }\n\treturn len([]X{})\n}()\n"
		}, "X", nil},
		{"local-type-doc-in-method-body", func(a string) string {
			return "type R struct{}\n\nfunc (r R) m() {\n\tfunc() {\n\t\t" + a + "\n\t\ttype X struct{ f int }\n\t\tvar _ X\n\t}()\n}\n"
		}, "X", nil},
		{"local-func-literal-doc", func(a string) string { return "func g() {\n\t" + a + "\n\tX := func() {}\n\tX()\n}\n" }, "X", nil},
		{"interface-method-doc", func(a string) string { return "type I interface {\n\t" + a + "\n\tX()\n}\n" }, "X", nil},
		{"var-doc", func(a string) string { return a + "\nvar X int\n" }, "X", nil},
		{"const-doc", func(a string) string { return a + "\nconst X = 1\n" }, "X", nil},
		{"detached-by-blank-line", func(a string) string { return a + "\n\ntype X struct{ f int }\n" }, "X", nil},
		{"inside-body", func(a string) string { return "func X() {\n\t" + a + "\n\t_ = 1\n}\n" }, "X", nil},
		{"after-last-declaration", func(a string) string { return "type X struct{ f int }\n\n" + a + "\n" }, "X", nil},
		{"block-comment-doc", func(a string) string { return "/* " + a[3:] + " */\ntype X struct{ f int }\n" }, "X", nil},
		{"block-comment-doc-with-inner-line-comment", func(a string) string { return "/*\n" + a + "\ntype Old struct{}\n*/\ntype X struct{ f int }\n" }, "X", nil},
		{"block-comment-doc-with-inner-line-comment-func", func(a string) string { return "/*\n" + a + "\n*/\nfunc X() {}\n" }, "X", nil},
		{"second-line-of-doc", func(a string) string { return "// X is documented.\n" + a + "\ntype X struct{ f int }\n" }, "X", typeEff},
		{"embedded-field-doc", func(a string) string {
			return "type E struct{}\n\n// @immutable\ntype X struct {\n\t" + a + "\n\tE\n}\n"
		}, "X.E", nil},
	}
	n := 0
	for _, st := range sites {
		for kw, a := range anns {
			src := "package x\n\n" + st.src(a)
			fset := token.NewFileSet()
			f, err := parser.ParseFile(fset, "/virtual/att.go", src, parser.ParseComments)
			if err != nil {
				base.Harness("attachment file does not parse (%s/%s): %v", st.name, kw, err)
			}
			pass := fakePass(fset, []*ast.File{f}, "example.com/x")
			pa := annotations.ReadAllAnnotations(config.New(false, []string{}, []string{}), pass)
			got := renderAnn(pa, "example.com/x")
			var relevant []string
			for k, v := range got {
				for _, x := range v {
					if k == st.key && strings.HasPrefix(x, kw) {
						relevant = append(relevant, x)
					}
				}
			}
			// also: the keyword must not take effect anywhere else
			elsewhere := 0
			for k, v := range got {
				for _, x := range v {
					if k != st.key && strings.HasPrefix(x, kw) && !(kw == "immutable" && strings.Contains(st.name, "immutable-struct") || kw == "immutable" && (st.name == "field-trailing-comment" || st.name == "embedded-field-doc")) {
						elsewhere++
					}
				}
			}
			want := st.eff[kw]
			n++
			r.Distinct("attachment/" + st.name + "/" + kw)
			if want != (len(relevant) > 0) || elsewhere > 0 {
				dir := "inert-site-took-effect"
				if want {
					dir = "documented-site-ignored"
				}
				r.Violate("attachment/"+st.name+"/"+dir+"/"+kw, fmt.Sprintf("@%s placed as %s: expected effective=%v, reader returned %v (all: %v)", kw, st.name, want, relevant, got), map[string]string{"file.go": src})
			}
		}
	}
	r.Eval(n)
	r.Obs("attachment_cases", n)
}

// c15BlankConsistency: whatever "whitespace" means, it means the same for every annotation keyword. For each unusual
// white-space character and each position (between // and @, directly after the keyword) the outcome recognised /
// not recognised must be identical for all seven keywords (each with a valid argument). The statement leaves open WHICH
// of these characters are blanks (FREE), not that the answer may differ from keyword to keyword.
func c15BlankConsistency(r *base.Run) {
	chars := map[string]string{"VT": "\v", "FF": "\f", "NBSP": "\u00a0", "NEL": "\u0085", "EM-SPACE": "\u2003", "IDEOGRAPHIC-SPACE": "\u3000", "LINE-SEP": "\u2028", "ZWSP": "\u200b", "TAB": "\t", "SPACE": " "}
	type kwCase struct{ kw, arg, site string }
	kws := []kwCase{{"@implements", "Shape", "type"}, {"@constructor", "New", "type"}, {"@immutable", "reason", "type"}, {"@testonly", "reason", "type"}, {"@packageonly", "a/b", "type"}, {"@testonly", "reason", "func"}, {"@packageonly", "a/b", "func"}, {"@mutable", "reason", "field"}, {"@ignore", "IMM01", "ignore"}}
	names := []string{}
	for n := range chars {
		names = append(names, n)
	}
	sort.Strings(names)
	n := 0
	for _, cn := range names {
		c := chars[cn]
		for _, pos := range []string{"before-at", "after-keyword"} {
			outcome := map[string]bool{}
			for _, k := range kws {
				line := "//" + c + k.kw + " " + k.arg
				if pos == "after-keyword" {
					line = "// " + k.kw + c + k.arg
				}
				var src string
				switch k.site {
				case "type", "ignore":
					src = "package x\n\n" + line + "\ntype X struct{ f int }\n"
				case "func":
					src = "package x\n\n" + line + "\nfunc X() {}\n"
				case "field":
					src = "package x\n\n// @immutable\ntype X struct {\n\t" + line + "\n\tf int\n}\n"
				}
				fset := token.NewFileSet()
				f, err := parser.ParseFile(fset, "/virtual/ws.go", src, parser.ParseComments)
				if err != nil {
					continue // the character cannot stand in a Go comment this way
				}
				pass := fakePass(fset, []*ast.File{f}, "example.com/x")
				cfg := config.New(false, []string{}, []string{})
				rec := false
				if k.site == "ignore" {
					if is := ignore.ReadIgnoreAnnotations(cfg, pass); is != nil && len(is.Markers) > 0 {
						rec = true
					}
				} else {
					got := renderAnn(annotations.ReadAllAnnotations(cfg, pass), "example.com/x")
					for key, v := range got {
						for _, x := range v {
							if strings.HasPrefix(x, k.kw[1:]) && (key == "X" || key == "X.f") {
								rec = true
							}
						}
					}
				}
				outcome[k.kw+"/"+k.site] = rec
				n++
			}
			yes, no := []string{}, []string{}
			for k, v := range outcome {
				if v {
					yes = append(yes, k)
				} else {
					no = append(no, k)
				}
			}
			sort.Strings(yes)
			sort.Strings(no)
			r.Distinct("blank-consistency/" + cn + "/" + pos)
			if len(yes) > 0 && len(no) > 0 {
				r.Violate("grammar/blank-inconsistent-across-keywords/"+pos, fmt.Sprintf("the character %s %s is accepted as a blank by %v but not by %v: the annotation keywords do not share one grammar", cn, pos, yes, no), nil)
			}
		}
	}
	r.Eval(n)
	r.Obs("blank_consistency_cases", n)
}
