package main

// C19 — rendered excerpt shows the right line; the caret marks the reported column.
// Events: the message the real reporting.Reporter hands to Pass.Report for synthetic files.
// Oracle: excerpt / caret / length model against the file bytes (own code).

import (
	"errors"
	"fmt"
	"go/token"
	"regexp"
	"sort"
	"strconv"
	"strings"
	"sync"
	"sync/atomic"
	"unicode/utf8"

	"golang.org/x/tools/go/analysis"

	"github.com/a14e/gogreement/src/reporting"

	"verif/harness/internal/base"
)

func init() { register("C19", checkC19) }

type fakeViolation struct {
	code string
	pos  token.Pos
	msg  string
}

func (v fakeViolation) GetCode() string    { return v.code }
func (v fakeViolation) GetPos() token.Pos  { return v.pos }
func (v fakeViolation) GetMessage() string { return v.msg }

// render runs the real Reporter on one (content, line, col) and returns the message (ok=false: nothing reported).
func renderReal(name string, content string, line, col int, readErr bool) (msg string, reported bool, panicked any) {
	return renderReal2(name, content, content, line, col, readErr)
}

// renderReal2: the position table is built from fsetContent, while ReadFile returns readContent (a file that changed on disk).
func renderReal2(name string, fsetContent, content string, line, col int, readErr bool) (msg string, reported bool, panicked any) {
	fset := token.NewFileSet()
	f := fset.AddFile(name, -1, len(fsetContent))
	f.SetLinesForContent([]byte(fsetContent))
	pass := &analysis.Pass{Fset: fset}
	pass.ReadFile = func(fn string) ([]byte, error) {
		if readErr {
			return nil, errors.New("injected: permission denied")
		}
		return []byte(content), nil
	}
	pass.Report = func(d analysis.Diagnostic) { msg = d.Message; reported = true }
	var pos token.Pos
	if line <= f.LineCount() {
		pos = f.LineStart(line) + token.Pos(col-1)
		if int(pos) > f.Base()+f.Size() {
			pos = token.Pos(f.Base() + f.Size())
		}
	} else {
		pos = token.Pos(f.Base() + f.Size())
	}
	defer func() {
		if r := recover(); r != nil {
			panicked = r
		}
	}()
	rep := reporting.NewReporter(pass, nil)
	rep.ReportViolation(fakeViolation{"IMM01", pos, "synthetic message"})
	return
}

// renderSeqReal reports several violations through ONE Reporter (as an analyzer does) and returns the messages in order.
func renderSeqReal(files map[string]string, at [][3]any) (msgs []string, panicked any) {
	fset := token.NewFileSet()
	tf := map[string]*token.File{}
	names := []string{}
	for n := range files {
		names = append(names, n)
	}
	sort.Strings(names)
	for _, n := range names {
		f := fset.AddFile(n, -1, len(files[n]))
		f.SetLinesForContent([]byte(files[n]))
		tf[n] = f
	}
	pass := &analysis.Pass{Fset: fset}
	pass.ReadFile = func(fn string) ([]byte, error) {
		if c, ok := files[fn]; ok {
			return []byte(c), nil
		}
		return nil, errors.New("no such file")
	}
	pass.Report = func(d analysis.Diagnostic) { msgs = append(msgs, d.Message) }
	defer func() {
		if r := recover(); r != nil {
			panicked = r
		}
	}()
	rep := reporting.NewReporter(pass, nil)
	for _, a := range at {
		f := tf[a[0].(string)]
		pos := f.LineStart(a[1].(int)) + token.Pos(a[2].(int)-1)
		rep.ReportViolation(fakeViolation{"IMM01", pos, "synthetic message"})
	}
	return
}

var excerptRe = regexp.MustCompile(`^( *)(\d+) \| (.*)$`)

type excerpt struct {
	num      int
	text     string
	caret    string // text after " | " on the caret line, "" if none
	hasCaret bool
}

func parseMessage(msg string) (header string, ex []excerpt, help string, ok bool) {
	lines := strings.Split(msg, "\n")
	if len(lines) == 0 {
		return "", nil, "", false
	}
	header = lines[0]
	for i := 1; i < len(lines); i++ {
		l := lines[i]
		if m := excerptRe.FindStringSubmatch(l); m != nil {
			n, _ := strconv.Atoi(m[2])
			e := excerpt{num: n, text: m[3]}
			// caret line?
			if i+1 < len(lines) {
				nl := lines[i+1]
				w := len(m[1]) + len(m[2])
				if len(nl) >= w+3 && strings.TrimSpace(nl[:w]) == "" && nl[w:w+3] == " | " && strings.HasSuffix(nl, "^") && strings.TrimRight(nl[w+3:], " \t^") == "" {
					e.caret = nl[w+3:]
					e.hasCaret = true
					i++
				}
			}
			ex = append(ex, e)
			continue
		}
		if strings.HasPrefix(l, "   = help: ") {
			help = strings.TrimPrefix(l, "   = help: ")
		}
	}
	return header, ex, help, true
}

// validExcerpt: is e a legal rendering of src (untruncated, or ellipsis + contiguous substring + ellipsis within the bound)?
// If col>0 additionally returns the set of byte offsets in e at which the byte src[col-1] may stand.
func validExcerpt(e, src string, limit int, col int) (ok bool, offsets []int, why string) {
	if len(src) <= limit {
		if e != src {
			return false, nil, "short line not shown verbatim"
		}
		if col >= 1 && col <= len(src) {
			return true, []int{col - 1}, ""
		}
		return true, nil, ""
	}
	if len(e) > limit+6 {
		return false, nil, fmt.Sprintf("excerpt length %d exceeds limit+6=%d", len(e), limit+6)
	}
	found := false
	for _, pre := range []string{"", "..."} {
		for _, post := range []string{"", "..."} {
			if pre == "" && post == "" {
				continue
			}
			if !strings.HasPrefix(e, pre) || !strings.HasSuffix(e, post) || len(e) < len(pre)+len(post) {
				continue
			}
			sub := e[len(pre) : len(e)-len(post)]
			if pre == "" && !strings.HasPrefix(src, sub) {
				continue
			}
			if post == "" && !strings.HasSuffix(src, sub) {
				continue
			}
			for from := 0; from <= len(src)-len(sub); {
				i := strings.Index(src[from:], sub)
				if i < 0 {
					break
				}
				start := from + i
				if (pre != "" || start == 0) && (post != "" || start+len(sub) == len(src)) {
					found = true
					if col >= 1 && col <= len(src) && col-1 >= start && col-1 < start+len(sub) {
						offsets = append(offsets, len(pre)+col-1-start)
					}
				}
				from = start + 1
			}
		}
	}
	if !found {
		return false, nil, "excerpt is not ellipsis + contiguous part of the source line"
	}
	return true, offsets, ""
}

type c19case struct {
	Lines     []string `json:"lines"`
	Line, Col int
	ReadErr   bool
	DiskLines []string // non-nil: what ReadFile returns (shorter than the parsed file)
}

// judge19 returns "" if the rendering is fine, else (key, detail).
func judge19(c c19case, limit int) (key, detail string) {
	content := strings.Join(c.Lines, "\n") + "\n"
	disk := content
	if c.DiskLines != nil {
		disk = strings.Join(c.DiskLines, "\n") + "\n"
	}
	msg, reported, pan := renderReal2("/virtual/x.go", content, disk, c.Line, c.Col, c.ReadErr)
	return judgeMsg(c, limit, msg, reported, pan)
}

func judgeMsg(c c19case, limit int, msg string, reported bool, pan any) (key, detail string) {
	if pan != nil {
		return "render/panic", fmt.Sprintf("Reporter panicked: %v", pan)
	}
	if !reported {
		return "render/nothing-reported", "ReportViolation reported nothing"
	}
	header, ex, help, _ := parseMessage(msg)
	if !strings.HasPrefix(header, "error: [IMM01] synthetic message") {
		return "render/header", "header line is " + strconv.Quote(header)
	}
	if c.ReadErr || (c.DiskLines != nil && c.Line > len(c.DiskLines)) {
		for _, e := range ex {
			if e.hasCaret {
				return "render/caret-without-source", "caret rendered although the source line is unavailable: " + strconv.Quote(msg)
			}
		}
		if c.ReadErr && len(ex) > 0 {
			return "render/excerpt-without-source", "excerpt rendered although the file is unreadable"
		}
		if !strings.HasSuffix(help, ".html") {
			return "render/help-missing-without-excerpt", "no documentation link in a message without excerpt: " + strconv.Quote(msg)
		}
		if !c.ReadErr && len(ex) > 0 {
			return "render/excerpt-without-source/shorter-file", fmt.Sprintf("the file on disk has %d lines, the diagnostic is on line %d, yet an excerpt (without that line) is rendered: %s", len(c.DiskLines), c.Line, strconv.Quote(msg))
		}
		return "", ""
	}
	src := c.Lines[c.Line-1]
	var main *excerpt
	for i := range ex {
		e := &ex[i]
		if e.num < 1 || e.num > len(c.Lines) {
			return "render/line-number-out-of-file", fmt.Sprintf("excerpt numbered %d but the file has %d lines", e.num, len(c.Lines))
		}
		if e.num == c.Line {
			main = e
			continue
		}
		if e.num < c.Line-2 || e.num > c.Line+1 {
			return "render/context-not-neighbouring", fmt.Sprintf("context line %d for a diagnostic on line %d", e.num, c.Line)
		}
		if ok, _, why := validExcerpt(e.text, c.Lines[e.num-1], limit, 0); !ok {
			return "render/context-line", fmt.Sprintf("context line %d: %s: %q vs source %q", e.num, why, head(e.text, 80), head(c.Lines[e.num-1], 80))
		}
		if e.hasCaret {
			return "render/caret-on-wrong-line", fmt.Sprintf("caret under line %d, diagnostic is on line %d", e.num, c.Line)
		}
	}
	if main == nil {
		return "render/no-excerpt-of-reported-line", "no excerpt line numbered like the diagnostic: " + strconv.Quote(head(msg, 300))
	}
	ok, offsets, why := validExcerpt(main.text, src, limit, c.Col)
	if !ok {
		return "render/excerpt", fmt.Sprintf("%s (len(src)=%d col=%d): %q", why, len(src), c.Col, head(main.text, 120))
	}
	if !strings.HasSuffix(help, ".html") {
		return "render/help", "help line missing: " + strconv.Quote(help)
	}
	if c.Col < 1 || c.Col > len(src) {
		// column len+1: no character there; caret placement FREE, but bounded
		if main.hasCaret && len(main.caret) > limit+8 {
			return "render/caret-unbounded", fmt.Sprintf("caret line of length %d", len(main.caret))
		}
		return "", ""
	}
	if !main.hasCaret {
		return "render/no-caret", "no caret line under the reported line"
	}
	if len(offsets) == 0 {
		return "render/column-cut-away", fmt.Sprintf("the character at column %d is not part of the excerpt (len(src)=%d): %q", c.Col, len(src), head(main.text, 120))
	}
	// caret offset in characters
	ws := strings.TrimSuffix(main.caret, "^")
	caretChars := utf8.RuneCountInString(ws)
	good := false
	wide := false
	for _, off := range offsets {
		prefix := main.text[:off]
		if utf8.RuneCountInString(prefix) == caretChars {
			good = true
		}
		for _, r := range prefix {
			if r >= 0x1100 { // East-Asian wide / emoji range: terminal cell width is not the statement's business
				wide = true
			}
		}
	}
	if !utf8.ValidString(main.text) {
		wide = true // a cut inside a multi-byte rune: character counting is undefined on the fragment
	}
	if !good && !wide {
		asc := "ascii"
		if len(main.text) != utf8.RuneCountInString(main.text) {
			asc = "multibyte"
		}
		regime := "short"
		if len(src) > limit {
			regime = "truncated"
		}
		return "render/caret-column/" + regime + "/" + asc, fmt.Sprintf("caret stands at character offset %d, the character at column %d is at offset(s) %v of the excerpt (len(src)=%d)\nexcerpt: %q\ncaret:   %q", caretChars, c.Col, offsets, len(src), head(main.text, 240), head(main.caret, 240))
	}
	// tabs copied as tabs so that alignment survives any tab width
	if good {
		rs := []rune(main.text)
		wr := []rune(ws)
		for i := 0; i < len(wr) && i < len(rs); i++ {
			if (rs[i] == '\t') != (wr[i] == '\t') {
				return "render/caret-tabs", fmt.Sprintf("white space before the caret does not mirror the tabs of the excerpt at character %d: excerpt %q caret %q", i, head(main.text, 80), head(main.caret, 80))
			}
		}
	}
	return "", ""
}

// pseudo-random but deterministic line content in which every window of >= 6 bytes is (almost surely) unique
func asciiLine(n int, salt int) string {
	const al = "abcdefghijklmnopqrstuvwxyzABCDEFGHIJKLMNOPQRSTUVWXYZ0123456789_+-*/=<>(){}[];:,%%d!\\"
	b := make([]byte, n)
	x := uint32(salt*2654435761 + 12345)
	for i := range b {
		x = x*1664525 + 1013904223
		b[i] = al[(x>>16)%uint32(len(al))]
	}
	return string(b)
}

func checkC19(replay string) {
	r := base.NewRun("C19")
	limit := reporting.MaxLineLength
	r.Rule = fmt.Sprintf("real reporting.Reporter on synthetic files: all line lengths 0..3x limit (limit=%d read from the package; quick: every 3rd length) x all columns 1..len+1 for ASCII lines, plus tabs at 0-3 positions, 2/3/4-byte runes before/at/after the column and across cut points, first/last/only line, missing context, unreadable file, file shorter than the line, 64KB+ lines; oracle: excerpt = source line or ellipsis+contiguous substring+ellipsis within limit+6 containing the reported character, caret offset (in characters, tabs mirrored) = offset of that character; distinct = distinct (length, column, flavour) renderings judged", limit)
	r.Assume = []string{"display limit taken from reporting.MaxLineLength", "lines whose prefix contains East-Asian wide runes / emoji, and column len+1, are FREE for caret placement"}
	if replay != "" {
		base.Harness("replay for C19: re-run ./check C19 (cases are deterministic functions of tier and seed)")
	}
	step := r.Pick(3, 1)
	var cases int64
	var mu sync.Mutex
	flavours := map[string]int{}
	report := func(c c19case, key, detail string) {
		lines := ""
		for i, l := range c.Lines {
			lines += fmt.Sprintf("%d: %q\n", i+1, head(l, 700))
		}
		r.Violate(key, fmt.Sprintf("%s\nline=%d col=%d readErr=%v\n%s", detail, c.Line, c.Col, c.ReadErr, lines), nil)
	}
	// 1. exhaustive ASCII
	lengths := []int{}
	for n := 0; n <= 3*limit; n += step {
		lengths = append(lengths, n)
	}
	// always include the regime boundaries
	for _, n := range []int{limit - 1, limit, limit + 1, limit + 2, limit + 3, limit + 4, 2*limit - 3, 2*limit - 2, 2 * limit, 2*limit + 1, 3 * limit} {
		lengths = append(lengths, n)
	}
	base.Par(len(lengths), 0, func(i int) {
		n := lengths[i]
		src := asciiLine(n, n)
		var k int64
		for col := 1; col <= n+1; col++ {
			c := c19case{Lines: []string{"package x", "// before", src, "// after", "// end"}, Line: 3, Col: col}
			if key, d := judge19(c, limit); key != "" {
				report(c, key, d)
			}
			k++
		}
		atomic.AddInt64(&cases, k)
		mu.Lock()
		flavours["ascii"] += int(k)
		mu.Unlock()
	})
	// 2. tabs, multi-byte runes, positions in file
	rng := base.NewRand(r.Seed, "c19")
	nRand := r.Pick(30000, 300000)
	runes := []string{"é", "ß", "Ω", "д", "€", "→", "≤", " "}
	wideRunes := []string{"世", "界", "😀"}
	base.Par(nRand, 0, func(i int) {
		rg := base.NewRand(r.Seed, fmt.Sprintf("c19-%d", i))
		_ = rng
		var n int
		switch rg.Intn(4) {
		case 0:
			n = rg.Intn(limit + 1)
		case 1:
			n = limit - 5 + rg.Intn(12)
		default:
			n = rg.Intn(3*limit + 1)
		}
		b := []byte(asciiLine(n, i+7))
		flav := "ascii-pos"
		src := string(b)
		switch rg.Intn(5) {
		case 0, 1: // tabs
			flav = "tabs"
			for t := 0; t < 1+rg.Intn(3) && n > 0; t++ {
				b[rg.Intn(n)] = '\t'
			}
			if rg.Bool() && n > 2 {
				b[0], b[1] = '\t', '\t' // leading indentation, the usual case
			}
			src = string(b)
		case 2, 3: // narrow multi-byte runes
			flav = "multibyte"
			var sb strings.Builder
			for j := 0; j < n; j++ {
				if rg.Chance(1, 12) {
					sb.WriteString(base.Pick(rg, runes))
				} else {
					sb.WriteByte(b[j])
				}
			}
			src = sb.String()
		case 4:
			flav = "wide-runes"
			var sb strings.Builder
			for j := 0; j < n; j++ {
				if rg.Chance(1, 20) {
					sb.WriteString(base.Pick(rg, wideRunes))
				} else {
					sb.WriteByte(b[j])
				}
			}
			src = sb.String()
		}
		// column at a rune start
		col := 1
		if len(src) > 0 {
			col = 1 + rg.Intn(len(src))
			for col > 1 && !utf8.RuneStart(src[col-1]) {
				col--
			}
		}
		var c c19case
		switch rg.Intn(6) {
		case 0:
			c = c19case{Lines: []string{src}, Line: 1, Col: col} // only line
			flav += "/only-line"
		case 1:
			c = c19case{Lines: []string{src, "b", "c"}, Line: 1, Col: col} // first line
			flav += "/first-line"
		case 2:
			c = c19case{Lines: []string{"a", "b", src}, Line: 3, Col: col} // last line
			flav += "/last-line"
		case 3:
			c = c19case{Lines: []string{asciiLine(rg.Intn(3*limit), i), asciiLine(rg.Intn(3*limit), i+1), src, asciiLine(rg.Intn(3*limit), i+2)}, Line: 3, Col: col} // long context lines
			flav += "/long-context"
		default:
			c = c19case{Lines: []string{"package x", "", src, "", "x"}, Line: 3, Col: col}
		}
		if key, d := judge19(c, limit); key != "" {
			report(c, key, d)
		}
		atomic.AddInt64(&cases, 1)
		mu.Lock()
		flavours[flav]++
		mu.Unlock()
	})
	// 2b. several violations through one Reporter: same long line at different columns, other lines, other files
	nSeq := r.Pick(3000, 40000)
	base.Par(nSeq, 0, func(i int) {
		rg := base.NewRand(r.Seed, fmt.Sprintf("c19seq-%d", i))
		mk := func(salt int) []string {
			var ls []string
			for k := 0; k < 3+rg.Intn(4); k++ {
				n := rg.Intn(3 * limit)
				if rg.Chance(1, 3) {
					n = limit + 1 + rg.Intn(2*limit)
				}
				ls = append(ls, asciiLine(n, salt*31+k))
			}
			return ls
		}
		fl := map[string][]string{"/virtual/a.go": mk(i), "/virtual/b.go": mk(i + 1)}
		content := map[string]string{}
		for n, ls := range fl {
			content[n] = strings.Join(ls, "\n") + "\n"
		}
		var at [][3]any
		var cs []c19case
		hot := 1 + rg.Intn(len(fl["/virtual/a.go"]))
		for k := 0; k < 2+rg.Intn(5); k++ {
			name := "/virtual/a.go"
			line := hot
			if rg.Chance(1, 4) {
				name = "/virtual/b.go"
				line = 1 + rg.Intn(len(fl[name]))
			} else if rg.Chance(1, 4) {
				line = 1 + rg.Intn(len(fl[name]))
			}
			src := fl[name][line-1]
			col := 1
			if len(src) > 0 {
				col = 1 + rg.Intn(len(src))
			}
			at = append(at, [3]any{name, line, col})
			cs = append(cs, c19case{Lines: fl[name], Line: line, Col: col})
		}
		msgs, pan := renderSeqReal(content, at)
		if pan != nil {
			report(cs[0], "render/panic", fmt.Sprintf("Reporter panicked in a sequence: %v", pan))
			return
		}
		if len(msgs) != len(at) {
			report(cs[0], "render/nothing-reported", fmt.Sprintf("%d violations reported through one Reporter, %d messages", len(at), len(msgs)))
			return
		}
		for k := range at {
			if key, d := judgeMsg(cs[k], limit, msgs[k], true, nil); key != "" {
				report(cs[k], "sequence/"+key, fmt.Sprintf("message %d of %d reported through ONE Reporter (positions %v): %s", k+1, len(at), at, d))
			}
		}
		atomic.AddInt64(&cases, int64(len(at)))
		mu.Lock()
		flavours["sequence-one-reporter"] += len(at)
		mu.Unlock()
	})
	// 2c. CRLF line endings, no trailing newline, line numbers changing digit count inside the window
	nMisc := r.Pick(4000, 40000)
	base.Par(nMisc, 0, func(i int) {
		rg := base.NewRand(r.Seed, fmt.Sprintf("c19misc-%d", i))
		nLines := []int{1, 2, 3, 9, 10, 11, 12, 99, 100, 101, 102, 1000, 1001}[rg.Intn(13)]
		lines := make([]string, nLines)
		for k := range lines {
			n := rg.Intn(40)
			if rg.Chance(1, 6) {
				n = limit - 3 + rg.Intn(8)
			}
			lines[k] = asciiLine(n, i*131+k)
			if rg.Chance(1, 5) && n > 2 {
				lines[k] = "\t" + lines[k][1:]
			}
		}
		target := nLines - rg.Intn(4)
		if target < 1 || rg.Chance(1, 3) {
			target = 1 + rg.Intn(nLines)
		}
		src := lines[target-1]
		col := 1
		if len(src) > 0 {
			col = 1 + rg.Intn(len(src))
		}
		sep, tail, flav := "\n", "\n", "lf"
		switch rg.Intn(3) {
		case 0:
			sep, tail, flav = "\r\n", "\r\n", "crlf"
		case 1:
			tail, flav = "", "no-final-newline"
			if lines[nLines-1] == "" {
				lines[nLines-1] = "x" // an empty last line without a final newline is not a line at all
				src = lines[target-1]
				if col > len(src) {
					col = 1
				}
			}
		}
		content := strings.Join(lines, sep) + tail
		msg, reported, pan := renderReal("/virtual/m.go", content, target, col, false)
		c := c19case{Lines: lines, Line: target, Col: col}
		if key, d := judgeMsg(c, limit, msg, reported, pan); key != "" {
			report(c, "misc-"+flav+"/"+key, fmt.Sprintf("(%s, %d lines, target line %d) %s", flav, nLines, target, d))
		}
		atomic.AddInt64(&cases, 1)
		mu.Lock()
		flavours["misc-"+flav]++
		mu.Unlock()
	})
	// 3. degraded inputs
	deg := []c19case{
		{Lines: []string{"package x", "var a = 1"}, Line: 2, Col: 5, ReadErr: true},
		{Lines: []string{"package x", "a", "b", "c", "d", "e", "var g = 1", "h"}, Line: 7, Col: 5, DiskLines: []string{"package x"}},
		{Lines: []string{"package x", "a", "b", "c", "d", "e", "var g = 1", "h"}, Line: 7, Col: 5, DiskLines: []string{"package x", "a", "b", "c", "d"}},
		{Lines: []string{"package x", "a", "b", "c", "d", "e", "var g = 1", "h"}, Line: 7, Col: 5, DiskLines: []string{}},
		{Lines: []string{""}, Line: 1, Col: 1},
		{Lines: []string{"package x", "a", "b", "c", "d", "e", "var g = 1", "h"}, Line: 7, Col: 5, DiskLines: []string{"package x", "a", "b", "c", "d", "e"}},
		{Lines: []string{"package x", "a", "b", "c", "d", "e", "var g = 1", "h"}, Line: 8, Col: 1, DiskLines: []string{"package x", "a", "b", "c", "d", "e"}},
		{Lines: []string{"package x", "a", "b", "c", "d", "e", "var g = 1", "h"}, Line: 8, Col: 1, DiskLines: []string{"package x", "a", "b", "c", "d", "e", "var g = 1"}},
		{Lines: []string{strings.Repeat("x", 70000)}, Line: 1, Col: 65000},
		{Lines: []string{"a", strings.Repeat("y", 200000), "b"}, Line: 2, Col: 1},
		{Lines: []string{"a", strings.Repeat("y", 200000), "b"}, Line: 2, Col: 200000},
		{Lines: []string{"a", strings.Repeat("y", 200000), "b"}, Line: 3, Col: 1},
	}
	// positions remapped by //line directives: a column-less directive yields Column == 0 ("unknown")
	for _, remapLine := range []int{1, 2, 4} {
		for _, col := range []int{0, 1, 3} {
			content := "package x\nvar a = 1\nvar b = 2\nvar c = 3\nvar d = 4\n"
			fset := token.NewFileSet()
			f := fset.AddFile("/virtual/gen.go", -1, len(content))
			f.SetLinesForContent([]byte(content))
			f.AddLineColumnInfo(int(f.LineStart(3))-f.Base(), "/virtual/gen.go", remapLine, col)
			pass := &analysis.Pass{Fset: fset}
			pass.ReadFile = func(string) ([]byte, error) { return []byte(content), nil }
			var got string
			pass.Report = func(d analysis.Diagnostic) { got = d.Message }
			func() {
				defer func() {
					if rec := recover(); rec != nil {
						report(c19case{Lines: strings.Split(content, "\n"), Line: 3, Col: 5}, "render/panic/line-directive", fmt.Sprintf("Reporter panicked on a position remapped by a //line directive (line %d, column %d): %v", remapLine, col, rec))
					}
				}()
				reporting.NewReporter(pass, nil).ReportViolation(fakeViolation{"IMM01", f.LineStart(3) + 4, "synthetic message"})
			}()
			cases++
			flavours["line-directive"]++
			if got != "" && !strings.HasPrefix(got, "error: [IMM01] synthetic message") {
				report(c19case{Lines: strings.Split(content, "\n"), Line: 3, Col: 5}, "render/header", "header after //line remap: "+strconv.Quote(head(got, 80)))
			}
		}
	}
	for _, c := range deg {
		if key, d := judge19(c, limit); key != "" {
			report(c, key, d)
		}
		cases++
		flavours["degraded"]++
	}
	r.Eval(int(cases))
	r.SetDistinctN(int(cases))
	r.Exhaustive = step == 1
	r.Obs("flavours", flavours)
	r.Obs("limit", limit)
	r.Obs("ascii_lengths", len(lengths))
	c0 := c19case{Lines: []string{"package x", "// before", asciiLine(limit+40, 1), "// after"}, Line: 3, Col: limit + 10}
	m0, _, _ := renderReal("/virtual/x.go", strings.Join(c0.Lines, "\n")+"\n", c0.Line, c0.Col, false)
	r.Sample(map[string]any{"line_len": limit + 40, "col": limit + 10, "message": m0})
	r.Finish()
}
