package main

// C01–C04: generated multi-package programs through the real binary, judged per site by the reference model.

import (
	"fmt"
	"os"
	"sort"
	"strings"
	"sync"

	"verif/harness/internal/base"
	"verif/harness/internal/gen"
	"verif/harness/internal/ggrun"
)

func init() {
	register("C01", func(rp string) { checkSites("C01", gen.IMM, rp) })
	register("C02", func(rp string) { checkSites("C02", gen.CTOR, rp) })
	register("C03", func(rp string) { checkSites("C03", gen.TONL, rp) })
	register("C04", func(rp string) { checkSites("C04", gen.PKGO, rp) })
}

// runProgram renders a built program into a scratch dir, runs the binary and compares with the model.
type progResult struct {
	root     string
	files    map[string]string
	res      *ggrun.Result
	exp      *gen.Expect
	mm       []gen.Mismatch
	judged   int
	classes  map[string]int
	crashed  bool
	crashWhy string
}

func cfgArgs(cfg gen.Cfg) []string {
	return []string{
		fmt.Sprintf("-config.scan-tests=%v", cfg.ScanTests),
		"-config.exclude-paths=" + strings.Join(cfg.ExcludePaths, ","),
		"-config.exclude-checks=" + strings.Join(cfg.ExcludeChecks, ","),
	}
}

func runProgram(bt *gen.Built, ro gen.RenderOpts, cfg gen.Cfg, keep bool) *progResult {
	pr := &progResult{}
	pr.files = gen.Render(bt.P, ro)
	pr.root = ggrun.Scratch()
	if !keep {
		defer os.RemoveAll(pr.root)
	}
	ggrun.WriteTree(pr.root, pr.files)
	pr.exp = gen.Evaluate(bt.P, cfg, pr.root)
	pr.res = ggrun.Run(ggrun.Opts{Dir: pr.root, Args: append(cfgArgs(cfg), "./...")})
	pr.crashed, pr.crashWhy = pr.res.Crashed(false)
	if pr.crashed {
		if ok, out := ggrun.CompileCheck(pr.root); !ok {
			keepDir := "/var/tmp/vfw-noncompiling"
			os.RemoveAll(keepDir)
			os.Rename(pr.root, keepDir)
			base.Harness("generated program does not compile (kept in %s):\n%s", keepDir, out)
		}
		return pr
	}
	pr.mm, pr.judged, pr.classes = gen.Compare(bt.P, pr.exp, ggrun.ToObs(pr.res.Diags))
	return pr
}

func replayFiles(pr *progResult, extra map[string]string) map[string]string {
	fs := map[string]string{}
	for k, v := range pr.files {
		fs["module/"+k] = v
	}
	for k, v := range extra {
		fs[k] = v
	}
	if pr.res != nil {
		fs["stdout.json"] = pr.res.Stdout
		fs["stderr.txt"] = pr.res.Stderr
	}
	return fs
}

func specFor(r *base.Run, i int) gen.Spec {
	return gen.Spec{Seed: r.Seed, Index: i, Hostile: i%3 != 0, Tests: i%2 == 0, Excluded: i%4 == 1, Impl: i%5 == 0, PerPair: 12, SameNames: i%7 == 3, Transit: i%7 == 5}
}

func cfgFor(i int) gen.Cfg {
	c := gen.DefaultCfg()
	switch i % 6 {
	case 2:
		c.ScanTests = true
	case 3:
		c.ExcludePaths = []string{"gen_legacy"}
	case 5:
		c.ScanTests = true
		c.ExcludePaths = []string{"zz_skip", "gen_legacy", "testdata", "Gen_Old"}
	}
	return c
}

func checkSites(id, cat, replay string) {
	r := base.NewRun(id)
	r.Rule = "generated multi-package programs (declaring, using packages; all statement templates x nestings x contexts x annotation mixes) run through the real binary; per (line, analyzer) the observed codes must equal the reference model's MUST set unless the model says FREE; distinct = distinct (template-class, verdict, hostile-feature) classes judged for category " + cat
	r.Assume = []string{"reference model in harness/internal/gen/model.go written from the property statements", "generated programs compile (compile gate on any abnormal exit)", "one candidate statement per line"}
	n := r.Pick(60, 1500)
	var mu sync.Mutex
	classes := map[string]int{}
	hist := map[string]int{}
	base.Par(n, 0, func(i int) {
		bt := gen.Build(specFor(r, i))
		cfg := cfgFor(i)
		pr := runProgram(bt, gen.RenderOpts{}, cfg, false)
		if pr.crashed {
			r.Eval(1)
			r.Violate("crash/"+crashKey(pr.res.Stderr), fmt.Sprintf("program %d (cfg %+v): tool did not terminate normally: %s\nstderr:\n%s", i, cfg, pr.crashWhy, head(pr.res.Stderr, 4000)),
				replayFiles(pr, map[string]string{"argv.txt": strings.Join(append(cfgArgs(cfg), "./..."), " ")}))
			return
		}
		nj := 0
		mu.Lock()
		for k, v := range pr.classes {
			if strings.HasPrefix(k, cat+"/") {
				classes[k] += v
				nj += v
			}
		}
		for k, v := range bt.Hist {
			hist[k] += v
		}
		mu.Unlock()
		r.Eval(nj)
		seen := map[string]bool{}
		for _, m := range pr.mm {
			if !strings.HasPrefix(m.Key, cat+"/") || seen[m.Key] {
				continue
			}
			seen[m.Key] = true
			r.Violate(m.Key, fmt.Sprintf("program %d cfg=%+v: %s", i, cfg, m.Detail), replayFiles(pr, map[string]string{"argv.txt": strings.Join(append(cfgArgs(cfg), "./..."), " ")}))
		}
		// the vet driver (one process per package, facts on disk) must give the same verdicts: every 10th program without test files
		if (r.Thorough() || i < 4) && i%2 == 1 && !bt.Spec.Tests {
			root := ggrun.Scratch()
			ggrun.WriteTree(root, pr.files)
			exp2 := gen.Evaluate(bt.P, cfg, root)
			vres, verr := runVet(root, ggrun.Bin, cfgArgs(cfg), "./...")
			if vres.TimedOut && !strings.HasPrefix(vres.Stdout, "hang:") {
				r.Inconclusive(fmt.Sprintf("program %d: %s", i, head(vres.Stdout, 200)))
			} else if verr != nil || len(vres.Errors) > 0 {
				r.Violate("vet-driver/failed", fmt.Sprintf("program %d: go vet -vettool failed: %v %v\n%s", i, verr, vres.Errors, head(vres.Stdout, 1500)), replayFiles(pr, nil))
			} else {
				mm2, _, _ := gen.Compare(bt.P, exp2, ggrun.ToObs(vres.Diags))
				seen2 := map[string]bool{}
				for _, m := range mm2 {
					if strings.HasPrefix(m.Key, cat+"/") && !seen2[m.Key] {
						seen2[m.Key] = true
						r.Violate("vet-driver/"+m.Key, fmt.Sprintf("program %d via go vet -vettool cfg=%+v: %s", i, cfg, m.Detail), replayFiles(pr, nil))
					}
				}
				r.Count("programs_also_judged_through_the_vet_driver", 1)
			}
			os.RemoveAll(root)
		}
		if i < 3 {
			for _, m := range pr.exp.ByLine {
				_ = m
			}
			r.Sample(sampleOf(pr, cat))
		}
	})
	for k := range classes {
		r.Distinct(k)
	}
	r.Obs("classes_judged", classes)
	r.Obs("programs", n)
	r.Obs("template_context_histogram_size", len(hist))
	r.Finish()
}

func sampleOf(pr *progResult, cat string) any {
	type s struct {
		Loc, Text, Expect, Class string
	}
	var out []s
	ids := []int{}
	for id := range pr.exp.ByLine {
		ids = append(ids, id)
	}
	sort.Ints(ids)
	for _, id := range ids {
		x := pr.exp.ByLine[id][cat]
		l := pr.exp.Lines[id]
		if x == nil || l == nil || l.File == nil {
			continue
		}
		v := "NEVER"
		if x.Free {
			v = "FREE"
		} else if len(x.Must) > 0 {
			ks := []string{}
			for k := range x.Must {
				ks = append(ks, k)
			}
			v = "MUST " + strings.Join(ks, ",")
		}
		out = append(out, s{fmt.Sprintf("%s:%d", l.File.RelPath(), l.No), strings.TrimSpace(l.Text), v, x.Class})
		if len(out) >= 4 {
			break
		}
	}
	return out
}

func head(s string, n int) string {
	if len(s) > n {
		return s[:n] + "…"
	}
	return s
}

// crashKey: a stable key for a crash — the first frame inside the repository.
func crashKey(stderr string) string {
	for _, l := range strings.Split(stderr, "\n") {
		l = strings.TrimSpace(l)
		if i := strings.Index(l, "/src/"); i >= 0 && strings.Contains(l, ".go:") && (strings.HasPrefix(l, repoDir()+"/") || strings.Contains(l, "gogreement/src/")) {
			l = l[i+1:]
			if j := strings.Index(l, " "); j >= 0 {
				l = l[:j]
			}
			return l
		}
	}
	return "unknown"
}
