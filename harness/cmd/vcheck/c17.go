package main

// C17 — every diagnostic is well-formed, documented, suppressible by the code it shows.

import (
	"fmt"
	"os"
	"path/filepath"
	"regexp"
	"sort"
	"strings"
	"sync"
	"time"

	"github.com/a14e/gogreement/src/reporting"

	"verif/harness/internal/base"
	"verif/harness/internal/gen"
	"verif/harness/internal/ggrun"
)

func init() { register("C17", checkC17) }

// reference: category -> published documentation page (from the book's SUMMARY / file names)
var refPage = map[string]string{"IMPL": "02_01_implements.html", "IMM": "02_02_immutable.html", "CTOR": "02_03_constructor.html", "TONL": "02_04_testonly.html", "PKGO": "02_05_packageonly.html"}
var refAnalyzer = map[string]string{"IMM": "immutabilitychecker", "CTOR": "constructorchecker", "TONL": "testonlychecker", "PKGO": "packageonlychecker", "IMPL": "implementschecker"}
var anyCodeRe = regexp.MustCompile(`\[([A-Z]{2,6}[0-9]{1,3})\]`)

// wellFormed checks one diagnostic; files = rendered sources (relative path -> content).
func wellFormed(d ggrun.Diag, files map[string]string, root string, cfg gen.Cfg, modulePath string) (key, detail string) {
	lines := strings.Split(d.Msg, "\n")
	header := lines[0]
	if !strings.HasPrefix(header, "error: [") {
		return "format/header-prefix", fmt.Sprintf("header %q", header)
	}
	m := anyCodeRe.FindAllStringSubmatch(header, -1)
	if len(m) == 0 || !strings.HasPrefix(header, "error: ["+m[0][1]+"] ") {
		return "format/no-code", fmt.Sprintf("header %q", header)
	}
	code := m[0][1]
	cat, known := refCodes[code]
	if !known {
		return "format/unknown-code", fmt.Sprintf("code %q is not in the documented table; header %q", code, header)
	}
	for _, x := range m[1:] {
		if _, isCode := refCodes[x[1]]; isCode && x[1] != code {
			return "format/two-codes", fmt.Sprintf("header shows %s and %s: %q", code, x[1], header)
		}
	}
	if d.Analyzer != refAnalyzer[cat] {
		return "format/analyzer-category", fmt.Sprintf("%s reported by analyzer %q, expected %q", code, d.Analyzer, refAnalyzer[cat])
	}
	// position
	src, ok := files[d.File]
	if !ok {
		return "format/position-outside-module", fmt.Sprintf("%s at %s:%d — not a file of the analysed module", code, d.File, d.Line)
	}
	if cfg.Excluded(root + "/" + d.File) {
		return "format/position-in-excluded-file", fmt.Sprintf("%s at %s:%d which the configuration excludes", code, d.File, d.Line)
	}
	pkgPath := d.PkgID
	if i := strings.Index(pkgPath, " ["); i >= 0 {
		pkgPath = pkgPath[:i]
	}
	pkgPath = strings.TrimSuffix(pkgPath, "_test")
	dir := d.File[:strings.LastIndex(d.File, "/")]
	if pkgPath != modulePath+"/"+dir {
		return "format/position-in-other-package", fmt.Sprintf("%s reported while analysing %q but located in %s", code, d.PkgID, d.File)
	}
	srcLines := strings.Split(src, "\n")
	if d.Line < 1 || d.Line > len(srcLines) || d.Col < 1 || d.Col > len(srcLines[d.Line-1])+1 {
		return "format/position-outside-file", fmt.Sprintf("%s at %s:%d:%d (file has %d lines)", code, d.File, d.Line, d.Col, len(srcLines))
	}
	// help line
	help := ""
	for _, l := range lines {
		if strings.HasPrefix(l, "   = help: ") {
			help = strings.TrimSpace(strings.TrimPrefix(l, "   = help: "))
		}
	}
	if !strings.HasSuffix(help, "/"+refPage[cat]) || !strings.HasPrefix(help, "https://") {
		return "format/help-link", fmt.Sprintf("%s links to %q, expected the %s page %s", code, help, cat, refPage[cat])
	}
	// excerpt of the reported line (real-run counterpart of C19)
	_, ex, _, _ := parseMessage(strings.Join(lines[1:], "\n"))
	_ = ex
	hdr, exs, _, _ := parseMessage(d.Msg)
	_ = hdr
	found := false
	for _, e := range exs {
		if e.num == d.Line {
			found = true
			if ok, _, why := validExcerpt(e.text, srcLines[d.Line-1], reporting.MaxLineLength, d.Col); !ok {
				return "format/excerpt", fmt.Sprintf("%s at %s:%d: %s: %q vs %q", code, d.File, d.Line, why, e.text, srcLines[d.Line-1])
			}
			if !e.hasCaret {
				return "format/no-caret", fmt.Sprintf("%s at %s:%d", code, d.File, d.Line)
			}
		}
	}
	if !found && code != "IMPL03" { // IMPL03 messages are multi-line; the excerpt still follows
		return "format/no-excerpt", fmt.Sprintf("%s at %s:%d: no excerpt line numbered like the diagnostic", code, d.File, d.Line)
	}
	return "", ""
}

func checkC17(replay string) {
	r := base.NewRun("C17")
	r.Rule = "every diagnostic of generated programs covering all 16 codes (default and scan-tests configurations) is checked for: 'error: [CODE]' header with a single documented code, analyzer of that category, position inside a non-excluded file of the analysed package, help link to the category's page, excerpt of the reported line; a sample of diagnostics is re-run with '// @ignore <displayed code>' appended to its line and the whole result compared with the reference model; text-mode exit status is compared with whether anything was printed; distinct = distinct (code, check kind) pairs observed"
	nProg := r.Pick(10, 150)
	perProg := r.Pick(24, 60)
	var mu sync.Mutex
	codeCount := map[string]int{}
	suppressed := map[string]int{}
	base.Par(nProg, 0, func(pi int) {
		spec := gen.Spec{Seed: r.Seed + 17000, Index: pi, Hostile: true, Tests: pi%3 == 1, Excluded: pi%4 == 2, Impl: true, PerPair: 5, MinimalAnn: 1 - pi%2, NoFreeT: true}
		cfg := gen.DefaultCfg()
		if pi%3 == 1 {
			cfg.ScanTests = true
		}
		if pi%4 == 2 {
			cfg.ExcludePaths = []string{"gen_legacy"}
		}
		bt0 := gen.Build(spec)
		pr0 := runProgram(bt0, gen.RenderOpts{}, cfg, true)
		defer os.RemoveAll(pr0.root)
		if pr0.crashed {
			r.Violate("crash/"+crashKey(pr0.res.Stderr), pr0.crashWhy+"\n"+head(pr0.res.Stderr, 2000), replayFiles(pr0, nil))
			return
		}
		for _, d := range pr0.res.Diags {
			r.Eval(1)
			if key, det := wellFormed(d, pr0.files, pr0.root, cfg, "m"); key != "" {
				r.Violate(key, fmt.Sprintf("program %d cfg %+v: %s\nmessage: %q", pi, cfg, det, d.Msg), replayFiles(pr0, nil))
			}
			mu.Lock()
			codeCount[d.Code]++
			mu.Unlock()
			r.Distinct(d.Code + "/format")
		}
		// text mode exit status
		if pi%2 == 0 {
			for _, extra := range [][]string{nil, {"-config.exclude-checks=ALL"}} {
				res := ggrun.Run(ggrun.Opts{Dir: pr0.root, Args: append(append(cfgArgs(cfg)[:2:2], extra...), "./..."), Text: true})
				r.Eval(1)
				printed := strings.Contains(res.Stderr+res.Stdout, "error: [")
				if bad, why := res.Crashed(true); bad {
					r.Violate("exit/abnormal", why+"\n"+head(res.Stderr, 1500), replayFiles(pr0, nil))
				} else if (res.Exit != 0) != printed {
					r.Violate("exit/status-vs-output", fmt.Sprintf("program %d args %v: exit status %d, diagnostics printed=%v", pi, extra, res.Exit, printed), replayFiles(pr0, nil))
				}
				if extra != nil && printed {
					r.Violate("exit/exclude-all-still-prints", "exclude-checks=ALL but diagnostics were printed", replayFiles(pr0, nil))
				}
				r.Distinct(fmt.Sprintf("exit/%v/%d", printed, res.Exit))
			}
		}
		// suppressible by the displayed code
		type tgt struct {
			id   int
			code string
			last bool
		}
		var tg []tgt
		lastDecl := map[*gen.Line]bool{}
		for _, pk := range bt0.P.Pkgs {
			for _, f := range pk.Files {
				if n := len(f.Decls); n > 0 {
					for _, l := range flatNode(f.Decls[n-1]) {
						lastDecl[l] = true
					}
				}
			}
		}
		// statements that span several lines (the diagnostic need not be on the statement's first line) get the same priority
		for _, st := range gen.Statements(bt0.P) {
			if len(st.N.Pre) > 1 && len(st.N.Kids) == 0 && len(st.N.Post) == 0 {
				for _, l := range st.N.Pre {
					lastDecl[l] = true
				}
			}
		}
		for _, d := range pr0.res.Diags {
			if l := bt0.P.FindLine(d.File, d.Line); l != nil && l.Trail == nil {
				tg = append(tg, tgt{l.ID, d.Code, lastDecl[l]})
			}
		}
		sort.SliceStable(tg, func(i, j int) bool { // diagnostics on the last declaration of a file first, then round-robin over codes
			if tg[i].last != tg[j].last {
				return tg[i].last
			}
			return false
		})
		rng := base.NewRand(r.Seed, fmt.Sprintf("c17-%d", pi))
		picked := map[string]int{}
		n := 0
		for _, t := range tg {
			if n >= perProg {
				break
			}
			if !t.last && (picked[t.code] >= 2 || !rng.Chance(1, 3)) {
				continue
			}
			picked[t.code]++
			n++
			bt := gen.Build(spec)
			ok, _ := applyIgnore(bt, t.id, ignCase{placement: "trailing", where: "in", list: 0}, t.code, rng)
			if !ok {
				continue
			}
			pr := runProgram(bt, gen.RenderOpts{}, cfg, false)
			r.Eval(1)
			if pr.crashed {
				r.Violate("crash/ignored/"+crashKey(pr.res.Stderr), pr.crashWhy, replayFiles(pr, nil))
				continue
			}
			for _, m := range pr.mm {
				where := "inside-a-body"
				if t.last {
					where = "last-declaration-of-file-or-multi-line-statement"
				}
				r.Violate("suppress/"+where+"/"+m.Key, fmt.Sprintf("program %d: '// @ignore %s' appended to the line of a %s diagnostic (line id %d): %s", pi, t.code, t.code, t.id, m.Detail), replayFiles(pr, nil))
				break
			}
			mu.Lock()
			suppressed[t.code]++
			mu.Unlock()
			r.Distinct(t.code + "/suppress")
		}
	})
	// annotated real-world corpora: the same format / table / position / help-link checks on every diagnostic
	{
		deps := []corpusDep{corpusDeps[0], corpusDeps[2], corpusDeps[3]}
		if r.Thorough() {
			deps = corpusDeps
		}
		root, err := makeInjectedCorpus(deps)
		if err != nil {
			os.RemoveAll(root)
			base.Harness("corpus copy: %v", err)
		}
		st, err := gen.InjectAnnotations(filepath.Join(root, "deps"), base.NewRand(r.Seed, "c17-corpus"), 30)
		if err != nil {
			base.Harness("inject: %v", err)
		}
		var pats []string
		for _, d := range deps {
			pats = append(pats, d.patterns...)
		}
		res := ggrun.Run(ggrun.Opts{Dir: root, Args: append([]string{"-test=false"}, pats...), Timeout: 10 * time.Minute})
		if bad, why := res.Crashed(false); bad {
			r.Violate("crash/corpus", why+"\n"+head(res.Stderr, 2000), nil)
		}
		nCorpus := 0
		for _, d := range res.Diags {
			r.Eval(1)
			nCorpus++
			lines := strings.Split(d.Msg, "\n")
			m := anyCodeRe.FindAllStringSubmatch(lines[0], -1)
			if !strings.HasPrefix(lines[0], "error: [") || len(m) == 0 {
				r.Violate("format/corpus/header", fmt.Sprintf("corpus diagnostic header %q", lines[0]), nil)
				continue
			}
			code := m[0][1]
			cat, known := refCodes[code]
			if !known {
				r.Violate("format/corpus/unknown-code", fmt.Sprintf("%q", lines[0]), nil)
				continue
			}
			if d.Analyzer != refAnalyzer[cat] {
				r.Violate("format/corpus/analyzer-category", fmt.Sprintf("%s reported by %s", code, d.Analyzer), nil)
			}
			if !strings.Contains(d.Msg, "   = help: https://") || !strings.Contains(d.Msg, "/"+refPage[cat]+"\n") {
				r.Violate("format/corpus/help-link", fmt.Sprintf("%s: %q", code, head(d.Msg, 400)), nil)
			}
			// position: inside the copied module tree, in a .go file of the analysed package directory
			abs := d.File
			if !filepath.IsAbs(abs) {
				abs = filepath.Join(root, d.File)
			}
			if b, err := os.ReadFile(abs); err != nil {
				r.Violate("format/corpus/position-unreadable-file", fmt.Sprintf("%s at %s:%d", code, d.File, d.Line), nil)
			} else if sl := strings.Split(string(b), "\n"); d.Line < 1 || d.Line > len(sl) {
				r.Violate("format/corpus/position-outside-file", fmt.Sprintf("%s at %s:%d", code, d.File, d.Line), nil)
			} else {
				_, exs, _, _ := parseMessage(d.Msg)
				for _, e := range exs {
					if e.num == d.Line {
						if ok, _, why := validExcerpt(e.text, strings.TrimSuffix(sl[d.Line-1], "\r"), reporting.MaxLineLength, d.Col); !ok {
							r.Violate("format/corpus/excerpt", fmt.Sprintf("%s at %s:%d: %s", code, d.File, d.Line, why), nil)
						}
					}
				}
			}
			mu.Lock()
			codeCount[d.Code]++
			mu.Unlock()
			r.Distinct(d.Code + "/corpus-format")
		}
		r.Obs("corpus_diagnostics_checked", nCorpus)
		r.Obs("corpus_injected_annotations", st.Annotations)
		os.RemoveAll(root)
	}
	// diagnostics whose position is remapped by a //line directive to a file that cannot be read (goyacc / template
	// output): no excerpt is possible, but code, analyzer and documentation link are still due
	{
		files := map[string]string{
			"go.mod": "module remap\n\ngo 1.25\n",
			"d/d.go": "package d\n\n// T is annotated.\n// @immutable\n// @constructor NewT\n// @testonly\n// @packageonly\ntype T struct{ F int }\n\n// NewT is the constructor.\nfunc NewT() *T { return &T{} }\n\n// Helper is annotated.\n// @testonly\n// @packageonly\nfunc Helper() {}\n\n// Reset is annotated.\n// @testonly\n// @packageonly\nfunc (t *T) Reset() {}\n\n// I is an interface.\ntype I interface{ M() }\n",
			"u/u.go": "package u\n\nimport \"remap/d\"\n\n//line missing/gen.y:40\nfunc f() {\n\tx := d.NewT()\n\tx.F = 1\n\tx.F += 1\n\tx.F++\n\t_ = d.T{}\n\t_ = new(d.T)\n\tvar z d.T\n\t_ = z\n\td.Helper()\n\tx.Reset()\n}\n\n// B does not implement d.I.\n// @implements d.I\ntype B struct{}\n\n// C names an unknown package.\n// @implements nosuch.I\ntype C struct{}\n\n// D names an unknown interface.\n// @implements d.NoSuch\ntype D struct{}\n",
		}
		root := ggrun.Scratch()
		ggrun.WriteTree(root, files)
		fs := map[string]string{}
		for k, v := range files {
			fs["module/"+k] = v
		}
		if ok, out := ggrun.CompileCheck(root); !ok {
			os.RemoveAll(root)
			base.Harness("C17 remap module does not compile: %s", out)
		}
		for _, text := range []bool{false, true} {
			res := ggrun.Run(ggrun.Opts{Dir: root, Args: []string{"./..."}, Text: text})
			if bad, why := res.Crashed(text); bad {
				r.Violate("crash/remapped-position", why+"\n"+head(res.Stderr, 2000), fs)
				continue
			}
			if text {
				// every header line of the text output is followed by a help line before the next header
				blocks := strings.Split(res.Stdout+res.Stderr, "error: [")
				for _, b := range blocks[1:] {
					r.Eval(1)
					if !strings.Contains(b, "= help: https://") {
						r.Violate("format/remapped/help-link", fmt.Sprintf("text mode: diagnostic without documentation link: %q", head("error: ["+b, 300)), fs)
					}
				}
				continue
			}
			seen := map[string]bool{}
			for _, d := range res.Diags {
				r.Eval(1)
				seen[d.Code] = true
				cat := refCodes[d.Code]
				if !strings.Contains(d.Msg, "   = help: https://") || !strings.Contains(d.Msg, "/"+refPage[cat]) {
					r.Violate("format/remapped/help-link", fmt.Sprintf("%s at %s:%d (position remapped by a //line directive to an unreadable file): no documentation link in %q", d.Code, d.File, d.Line, head(d.Msg, 300)), fs)
				}
				r.Distinct(d.Code + "/remapped-format")
			}
			if len(seen) < 12 {
				r.Inconclusive(fmt.Sprintf("remapped module produced only %d distinct codes", len(seen)))
			}
		}
		os.RemoveAll(root)
	}
	r.Obs("diagnostics_checked_by_code", codeCount)
	r.Obs("suppression_reruns_by_code", suppressed)
	if r.NViol() == 0 && len(codeCount) < 16 {
		base.Harness("C17 observed only %d of 16 codes: %v", len(codeCount), codeCount)
	}
	for c, n := range codeCount {
		if len(r.Samples) < 5 {
			r.Sample(map[string]any{"code": c, "diagnostics_checked": n, "suppression_reruns": suppressed[c]})
		}
	}
	r.Finish()
}
