package main

// C16 — suppression decision = inclusive range + ALL > category > code.
// Events: answers of the real util.IgnoreSet.Contains after a history of Add / AddModuleIgnore.
// Oracle: list-scan model written from the statement (own code table).

import (
	"encoding/json"
	"fmt"
	"go/token"
	"os"
	"path/filepath"
	"runtime"
	"sync"
	"sync/atomic"

	"github.com/a14e/gogreement/src/util"

	"verif/harness/internal/base"
)

func init() { register("C16", checkC16) }

// reference code table, written from the book (03_codes.md), not imported from /repo
var refCategories = []string{"IMM", "CTOR", "TONL", "PKGO", "IMPL"}
var refCodes = map[string]string{
	"IMM01": "IMM", "IMM02": "IMM", "IMM03": "IMM", "IMM04": "IMM",
	"CTOR01": "CTOR", "CTOR02": "CTOR", "CTOR03": "CTOR",
	"TONL01": "TONL", "TONL02": "TONL", "TONL03": "TONL",
	"PKGO01": "PKGO", "PKGO02": "PKGO", "PKGO03": "PKGO",
	"IMPL01": "IMPL", "IMPL02": "IMPL", "IMPL03": "IMPL",
}
var refAllCodes = []string{"IMM01", "IMM02", "IMM03", "IMM04", "CTOR01", "CTOR02", "CTOR03", "TONL01", "TONL02", "TONL03", "PKGO01", "PKGO02", "PKGO03", "IMPL01", "IMPL02", "IMPL03"}

// refTokensFor: the suppression tokens that match a diagnostic code c.
func refTokensFor(c string) []string {
	if cat, ok := refCodes[c]; ok {
		return []string{"ALL", cat, c}
	}
	return []string{"ALL", c}
}

type igOp struct {
	Global bool     `json:"global"`
	Codes  []string `json:"codes"`
	Start  int      `json:"start,omitempty"`
	End    int      `json:"end,omitempty"`
}

type igAnn struct {
	codes      []string
	start, end token.Pos
}

func (a igAnn) GetCodes() []string     { return a.codes }
func (a igAnn) GetStartPos() token.Pos { return a.start }
func (a igAnn) GetEndPos() token.Pos   { return a.end }

func buildReal(h []igOp) *util.IgnoreSet {
	s := &util.IgnoreSet{}
	for _, op := range h {
		if op.Global {
			s.AddModuleIgnore(op.Codes)
		} else {
			s.Add(igAnn{op.Codes, token.Pos(op.Start), token.Pos(op.End)})
		}
	}
	return s
}

func refContains(h []igOp, code string, pos int) bool {
	toks := refTokensFor(code)
	for _, op := range h {
		if !op.Global && !(op.Start <= pos && pos <= op.End) {
			continue
		}
		for _, c := range op.Codes {
			for _, t := range toks {
				if c == t {
					return true
				}
			}
		}
	}
	return false
}

func checkC16(replay string) {
	r := base.NewRun("C16")
	r.Rule = "exhaustive: every history of <=N add-operations (6 tokens x 15 ranges in 1..5 scoped + 6 global = 96 ops) x 8 query codes x positions 0..6, real IgnoreSet.Contains vs list-scan model; plus random long multi-token histories; a case is distinct/non-trivial when the (history,query) pair has at least one op whose token is in the query's hierarchy (the answer depends on range/globality)"
	r.Assume = []string{"go/token.Pos is an int; positions are compared numerically", "reference code/category table copied from the book"}
	if replay != "" {
		b, err := os.ReadFile(filepath.Join(replay, "history.json"))
		if err != nil {
			base.Harness("replay: %v", err)
		}
		var c struct {
			History []igOp
			Code    string
			Pos     int
		}
		json.Unmarshal(b, &c)
		got := buildReal(c.History).Contains(c.Code, token.Pos(c.Pos))
		want := refContains(c.History, c.Code, c.Pos)
		fmt.Printf("replay: Contains(%s,%d) real=%v model=%v\n", c.Code, c.Pos, got, want)
		if got != want {
			fmt.Printf("VIOLATION property=C16 replay=%s\n", replay)
			os.Exit(1)
		}
		os.Exit(0)
	}

	tokens := []string{"ALL", "IMM", "IMM01", "IMM02", "CTOR01", "ZZ99"}
	var ops []igOp
	for _, t := range tokens {
		for s := 1; s <= 5; s++ {
			for e := s; e <= 5; e++ {
				ops = append(ops, igOp{Codes: []string{t}, Start: s, End: e})
			}
		}
	}
	for _, t := range tokens {
		ops = append(ops, igOp{Global: true, Codes: []string{t}})
	}
	queries := []string{"ALL", "IMM", "IMM01", "IMM02", "CTOR01", "ZZ99", "CTOR", "CTOR02"}
	maxLen := r.Pick(3, 4)

	report := func(h []igOp, code string, pos int, got, want bool) {
		hc := append([]igOp(nil), h...)
		b, _ := json.MarshalIndent(map[string]any{"History": hc, "Code": code, "Pos": pos, "real": got, "model": want}, "", " ")
		key := "contains/real-false-model-true"
		if got {
			key = "contains/real-true-model-false"
		}
		r.Violate(key, fmt.Sprintf("Contains(%q,%d) real=%v model=%v after history %s", code, pos, got, want, string(b)), map[string]string{"history.json": string(b)})
	}

	// zero-value / empty / nil sets
	{
		var zero util.IgnoreSet
		var nilSet *util.IgnoreSet
		empty := &util.IgnoreSet{}
		emptyMod := &util.IgnoreSet{}
		emptyMod.AddModuleIgnore(nil)
		for _, q := range append(append([]string{}, queries...), refAllCodes...) {
			for p := 0; p <= 6; p++ {
				for name, s := range map[string]*util.IgnoreSet{"zero": &zero, "nil": nilSet, "empty": empty, "emptyModule": emptyMod} {
					r.Eval(1)
					if s.Contains(q, token.Pos(p)) {
						r.Violate("contains/empty-set-suppresses", fmt.Sprintf("%s set Contains(%s,%d)=true", name, q, p), nil)
					}
				}
			}
		}
		r.Distinct("empty-sets")
	}

	// exhaustive enumeration, first op fixed per worker task
	var evals, nontriv int64
	var distinctHist int64
	workers := runtime.NumCPU()
	type task struct{ prefix []int }
	var tasks []task
	tasks = append(tasks, task{nil}) // the empty history
	for i := range ops {
		if maxLen >= 2 {
			for j := range ops {
				tasks = append(tasks, task{[]int{i, j}})
			}
		}
		tasks = append(tasks, task{[]int{i}}) // exactly this history of length 1
	}
	var stop atomic.Bool
	var sampleMu sync.Mutex
	base.Par(len(tasks), workers, func(ti int) {
		if stop.Load() {
			return
		}
		t := tasks[ti]
		h := make([]igOp, 0, maxLen)
		for _, i := range t.prefix {
			h = append(h, ops[i])
		}
		var ev, nt, dh int64
		var rec func(depth int)
		judge := func() {
			s := buildReal(h)
			dh++
			for _, q := range queries {
				toks := refTokensFor(q)
				rel := false
				for _, op := range h {
					for _, tk := range toks {
						if op.Codes[0] == tk {
							rel = true
						}
					}
				}
				for p := 0; p <= 6; p++ {
					got := s.Contains(q, token.Pos(p))
					want := refContains(h, q, p)
					ev++
					if rel {
						nt++
					}
					if got != want {
						report(h, q, p, got, want)
						if r.NViol() > 30 {
							stop.Store(true)
						}
					}
				}
			}
		}
		rec = func(depth int) {
			if stop.Load() {
				return
			}
			judge()
			if depth >= maxLen {
				return
			}
			for i := range ops {
				h = append(h, ops[i])
				rec(depth + 1)
				h = h[:len(h)-1]
			}
		}
		if len(t.prefix) < 2 {
			judge() // exact history only (length 0 or 1)
		} else {
			rec(2)
		}
		atomic.AddInt64(&evals, ev)
		atomic.AddInt64(&nontriv, nt)
		atomic.AddInt64(&distinctHist, dh)
		if ti%997 == 0 && len(h) > 0 {
			sampleMu.Lock()
			r.Sample(map[string]any{"history": append([]igOp(nil), h...), "query": "IMM01@3", "real": buildReal(h).Contains("IMM01", 3), "model": refContains(h, "IMM01", 3)})
			sampleMu.Unlock()
		}
	})
	r.Eval(int(evals))
	r.Obs("exhaustive_histories", distinctHist)
	r.Obs("exhaustive_max_len", maxLen)
	r.Obs("exhaustive_comparisons", evals)
	r.Obs("exhaustive_nontrivial_comparisons", nontriv)
	r.Exhaustive = true

	// random long histories: multi-token markers, wide positions, interleaved global adds
	nRand := r.Pick(4000, 60000)
	allTok := append(append([]string{"ALL", "ZZ99", "IMM0", "IMM011", "all"}, refCategories...), refAllCodes...)
	var rEv, rNt int64
	base.Par(nRand, workers, func(i int) {
		rng := base.NewRand(r.Seed, fmt.Sprintf("c16-%d", i))
		n := 5 + rng.Intn(196)
		span := []int{10, 100, 1000000}[rng.Intn(3)]
		h := make([]igOp, 0, n)
		for k := 0; k < n; k++ {
			nt := 1 + rng.Intn(3)
			var cs []string
			for j := 0; j < nt; j++ {
				cs = append(cs, base.Pick(rng, allTok))
			}
			if rng.Chance(1, 12) {
				h = append(h, igOp{Global: true, Codes: cs})
				continue
			}
			a := 1 + rng.Intn(span)
			b := a + rng.Intn(1+span/4)
			h = append(h, igOp{Codes: cs, Start: a, End: b})
		}
		// sparse histories: keep few relevant tokens so answers are not trivially true
		if rng.Bool() {
			keep := h[:0]
			for _, op := range h {
				if !(op.Global && rng.Chance(3, 4)) {
					keep = append(keep, op)
				}
			}
			h = keep
		}
		s := buildReal(h)
		var ev, ntv int64
		for q := 0; q < 120; q++ {
			code := base.Pick(rng, append(refAllCodes, "ZZ99", "IMM", "CTOR"))
			var p int
			switch rng.Intn(3) {
			case 0:
				p = rng.Intn(span + span/2 + 2)
			default: // boundary of some marker +-1
				op := h[rng.Intn(len(h))]
				p = []int{op.Start - 1, op.Start, op.End, op.End + 1}[rng.Intn(4)]
			}
			got := s.Contains(code, token.Pos(p))
			want := refContains(h, code, p)
			ev++
			ntv++
			if got != want {
				report(h, code, p, got, want)
			}
		}
		atomic.AddInt64(&rEv, ev)
		atomic.AddInt64(&rNt, ntv)
		if i < 2 {
			r.Sample(map[string]any{"random_history_len": len(h), "first_ops": h[:3]})
		}
	})
	r.Eval(int(rEv))
	r.Obs("random_histories", nRand)
	r.Obs("random_comparisons", rEv)
	// distinct = distinct histories explored that contain a relevant token for at least one query (measured: all
	// non-empty exhaustive histories have one, since every token is in the hierarchy of some query) + random histories
	for i := int64(0); i < 2; i++ {
		r.Distinct(fmt.Sprintf("class-%d", i))
	}
	r.Obs("distinct_rule_detail", "distinct_nontrivial below counts distinct exhaustive histories + random histories")
	r.SetDistinctN(int(distinctHist-1) + nRand)
	r.Finish()
}
