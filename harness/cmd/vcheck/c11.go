package main

// C11 — results are deterministic and independent of analysis schedule; concurrent analysis has no data races.

import (
	"fmt"
	"os"
	"path/filepath"
	"regexp"
	"sort"
	"strings"
	"sync"

	"verif/harness/internal/base"
	"verif/harness/internal/gen"
	"verif/harness/internal/ggrun"
)

func init() { register("C11", checkC11) }

var raceTopRe = regexp.MustCompile(`(?m)^\s+([\w./()*\-]+)\(\)\n\s+(\S+\.go):\d+`)

// countRaces reads GORACE log files below dir with the given prefix; returns block count and de-duplicated top frames.
func countRaces(prefix string) (int, []string) {
	matches, _ := filepath.Glob(prefix + "*")
	n := 0
	tops := map[string]bool{}
	for _, m := range matches {
		b, err := os.ReadFile(m)
		if err != nil {
			continue
		}
		blocks := strings.Split(string(b), "WARNING: DATA RACE")
		for _, blk := range blocks[1:] {
			n++
			fr := raceTopRe.FindAllStringSubmatch(blk, 4)
			var key []string
			for _, f := range fr {
				key = append(key, f[1])
			}
			tops[strings.Join(key, " <- ")] = true
		}
		os.Remove(m)
	}
	var ts []string
	for t := range tops {
		ts = append(ts, t)
	}
	sort.Strings(ts)
	return n, ts
}

func checkC11(replay string) {
	r := base.NewRun("C11")
	r.Rule = "the same generated module and configuration is analysed under many schedules: repeated runs, sequential (-debug=p) vs parallel, GOMAXPROCS 1/4/16, permuted package arguments, with and without unrelated packages, the in-process driver with PRNG-chosen yields/sleeps at every Analyzer.Run entry (several perturbation seeds) — all normalised (file,line,col,analyzer,message) sets must be identical; race-detector builds of the binary and of the in-process driver (incl. 4 concurrent Analyze calls in one process) must report zero DATA RACE blocks; distinct = (module, configuration, schedule) runs compared"
	r.Assume = []string{"the Go race detector sees only races on code the workloads execute concurrently", "a run in which fewer than two actions overlapped does not count"}
	nMod := r.Pick(4, 40)
	racePath := filepath.Join(base.BuildDir, "gogreement-race")
	vraceBin := filepath.Join(base.BuildDir, "vcheck-race")
	if _, err := os.Stat(racePath); err != nil {
		base.Harness("race build of gogreement missing (%v); run ./build.sh 1", err)
	}
	if _, err := os.Stat(vraceBin); err != nil {
		base.Harness("race build of vcheck missing (%v); run ./build.sh 1", err)
	}
	cfgs := [][]string{{}, {"-config.exclude-checks=ZZ99"}, {"-config.exclude-checks=tonl,PKGO03", "-config.scan-tests=true"}}
	var mu sync.Mutex
	orders := map[string]bool{}
	overlapSeen := int64(0)
	raceBlocks := 0
	var raceTops []string
	schedules := map[string]int{}
	base.Par(nMod, 4, func(mi int) {
		spec := gen.Spec{Seed: r.Seed + 11000, Index: mi, Hostile: true, Tests: mi%2 == 0, Excluded: false, Impl: true, PerPair: 6, MinimalAnn: mi % 2, Transit: true, Unrelated: true, Twin: mi%2 == 1}
		bt := gen.Build(spec)
		// @ignore comments in every package: IgnoreSets with markers in many packages at once
		irng := base.NewRand(r.Seed, fmt.Sprintf("c11-ign-%d", mi))
		for _, st := range gen.Statements(bt.P) {
			if st.IsStatement() && irng.Chance(1, 18) {
				st.N.Lead = append(st.N.Lead, &gen.Ignore{Codes: base.Pick(irng, []string{"IMM01", "CTOR", "ZZ99", "TONL02, PKGO02", "IMPL", "imm03"})})
			}
		}
		files := gen.Render(bt.P, gen.RenderOpts{})
		root := ggrun.Scratch()
		defer os.RemoveAll(root)
		ggrun.WriteTree(root, files)
		fs := map[string]string{}
		for k, v := range files {
			fs["module/"+k] = v
		}
		var dirs []string
		for _, pk := range bt.P.Pkgs {
			dirs = append(dirs, "./"+pk.Dir)
		}
		for ci, cfg := range cfgs {
			base0 := ggrun.Run(ggrun.Opts{Dir: root, Args: append(append([]string{}, cfg...), "./...")})
			if bad, why := base0.Crashed(false); bad {
				if ok, out := ggrun.CompileCheck(root); !ok {
					base.Harness("generated program does not compile: %s", out)
				}
				r.Violate("crash/"+crashKey(base0.Stderr), why+"\n"+head(base0.Stderr, 2000), fs)
				return
			}
			want := ggrun.Set(base0.Diags)
			cmp := func(name string, got []string) {
				r.Eval(1)
				r.Distinct(fmt.Sprintf("%d/%d/%s", mi, ci, name))
				mu.Lock()
				schedules[strings.SplitN(name, "#", 2)[0]]++
				mu.Unlock()
				if strings.Join(want, "\n") != strings.Join(got, "\n") {
					wm, gm := map[string]bool{}, map[string]bool{}
					for _, x := range want {
						wm[x] = true
					}
					for _, x := range got {
						gm[x] = true
					}
					oa, ob := diffSets(wm, gm)
					r.Violate("nondeterminism/"+strings.SplitN(name, "#", 2)[0], fmt.Sprintf("module %d cfg %v: diagnostics of schedule %q differ from the first parallel run (%d vs %d). only first: %v ; only this: %v", mi, cfg, name, len(want), len(got), headList(oa, 3), headList(ob, 3)), fs)
				}
			}
			runSet := func(name string, o ggrun.Opts) {
				res := ggrun.Run(o)
				if bad, why := res.Crashed(false); bad {
					r.Violate("crash/schedule/"+strings.SplitN(name, "#", 2)[0], fmt.Sprintf("module %d cfg %v schedule %s: %s\n%s", mi, cfg, name, why, head(res.Stderr, 2500)), fs)
					return
				}
				cmp(name, ggrun.Set(res.Diags))
			}
			for k := 0; k < 3; k++ {
				runSet(fmt.Sprintf("repeat#%d", k), ggrun.Opts{Dir: root, Args: append(append([]string{}, cfg...), "./...")})
			}
			runSet("sequential-debug-p", ggrun.Opts{Dir: root, Args: append(append([]string{"-debug=p"}, cfg...), "./...")})
			for _, mp := range []string{"1", "4"} {
				runSet("GOMAXPROCS="+mp, ggrun.Opts{Dir: root, Args: append(append([]string{}, cfg...), "./..."), Env: []string{"GOMAXPROCS=" + mp}})
			}
			rng := base.NewRand(r.Seed, fmt.Sprintf("c11-%d-%d", mi, ci))
			for k := 0; k < 2; k++ {
				p := append([]string{}, dirs...)
				base.Shuffle(rng, p)
				runSet(fmt.Sprintf("permuted-args#%d", k), ggrun.Opts{Dir: root, Args: append(append([]string{}, cfg...), p...)})
			}
			// in-process driver with perturbed schedules
			extra := []string{"-tests=" + fmt.Sprint(spec.Tests)}
			for _, c := range cfg {
				kv := strings.SplitN(strings.TrimPrefix(c, "-config."), "=", 2)
				extra = append(extra, "-"+kv[0]+"="+kv[1])
			}
			for k := 0; k < r.Pick(3, 8); k++ {
				bin := filepath.Join(base.BuildDir, "vcheck")
				ex := append(append([]string{}, extra...), fmt.Sprintf("-perturb=%d", 100*mi+10*ci+k+1))
				name := fmt.Sprintf("in-process-perturbed#%d", k)
				if k == 1 {
					bin = vraceBin
					name = "in-process-race-perturbed#1"
				}
				dr := runDrive(bin, root, ex, "./...")
				if dr.Err != "" || len(dr.Sum.ActionErrors) > 0 {
					r.Violate("crash/in-process", fmt.Sprintf("module %d cfg %v: %s %v\n%s", mi, cfg, dr.Err, dr.Sum.ActionErrors, head(dr.Raw, 2500)), fs)
					continue
				}
				if dr.Sum.MaxConcurrent < 2 {
					r.Inconclusive(fmt.Sprintf("module %d: in-process run without overlapping actions", mi))
					continue
				}
				cmp(name, ggrun.Set(dr.Diags))
				mu.Lock()
				orders[dr.Sum.OrderHash] = true
				overlapSeen += dr.Sum.Overlapped
				mu.Unlock()
				for _, mp := range dr.Sum.MonitorProblems {
					r.Violate("monitor/in-situ-ignoreset", fmt.Sprintf("module %d cfg %v: %s", mi, cfg, mp), fs)
					break
				}
				if bin == vraceBin {
					n, tops := countRaces(filepath.Join(root, ".race"))
					mu.Lock()
					raceBlocks += n
					raceTops = append(raceTops, tops...)
					mu.Unlock()
					if n > 0 {
						r.Violate("race/in-process", fmt.Sprintf("module %d cfg %v: %d DATA RACE blocks; top frames: %v", mi, cfg, n, tops), fs)
					}
				}
			}
			// race builds: the binary itself, and 4 concurrent Analyze calls in one process
			if ci != 1 || r.Thorough() {
				res := ggrun.Run(ggrun.Opts{Bin: racePath, Dir: root, Args: append(append([]string{}, cfg...), "./..."), Env: []string{"GORACE=halt_on_error=0 log_path=" + filepath.Join(root, ".brace")}})
				n, tops := countRaces(filepath.Join(root, ".brace"))
				mu.Lock()
				raceBlocks += n
				mu.Unlock()
				if n > 0 {
					r.Violate("race/binary", fmt.Sprintf("module %d cfg %v: %d DATA RACE blocks in gogreement-race; top frames: %v", mi, cfg, n, tops), fs)
				} else if bad, why := res.Crashed(false); bad && !strings.Contains(why, "exit status 66") {
					r.Violate("crash/race-binary", why+"\n"+head(res.Stderr, 2000), fs)
				} else {
					cmp("race-binary", ggrun.Set(res.Diags))
				}
				dr := runDrive(vraceBin, root, append(append([]string{}, extra...), "-concurrent=4", "-perturb=7"), "./...")
				n, tops = countRaces(filepath.Join(root, ".race"))
				mu.Lock()
				raceBlocks += n
				schedules["4-concurrent-analyze-calls-race"]++
				mu.Unlock()
				r.Eval(1)
				if n > 0 {
					r.Violate("race/concurrent-analyze", fmt.Sprintf("module %d cfg %v: %d DATA RACE blocks with 4 concurrent Analyze calls; top frames: %v", mi, cfg, n, tops), fs)
				} else if dr.Err != "" {
					r.Violate("crash/concurrent-analyze", dr.Err+"\n"+head(dr.Raw, 2500), fs)
				} else {
					cmp("4-concurrent-analyze-calls", ggrun.Set(dr.Diags))
				}
			}
		}
		if mi == 0 {
			r.Sample(map[string]any{"module": mi, "packages": len(bt.P.Pkgs), "configurations": len(cfgs)})
		}
	})
	// unrelated packages whose diagnostics are reported in each other's files (//line directives, as generated code has them):
	// the diagnostics of a package must be the same alone, next to the other package, in both listing orders, sequential and parallel
	lineRuns := 0
	for li, ln := range []int{2, 6, 9, 40} {
		files := map[string]string{
			"go.mod": "module example.com/linedir\n\ngo 1.21\n",
			"a/a.go": fmt.Sprintf("package a\n\n// Conf is a value type\n// @immutable\ntype Conf struct {\n\tN int\n}\n\n// generated from a template next to package b\n//\n//line ../b/b.go:%d\nfunc Reset(c *Conf) {\n\tc.N = 0\n}\n", ln),
			"b/b.go": "package b\n\n// Point is a value type\n// @immutable\ntype Point struct {\n\tX int\n\tY int\n}\n\nfunc Shift(p *Point) {\n\tp.X = 1\n}\n",
		}
		root := ggrun.Scratch()
		ggrun.WriteTree(root, files)
		fs := map[string]string{}
		for k, v := range files {
			fs["module/"+k] = v
		}
		perPkg := func(res *ggrun.Result, suffix string) string {
			var ds []ggrun.Diag
			for _, d := range res.Diags {
				if strings.HasSuffix(d.PkgID, suffix) {
					ds = append(ds, d)
				}
			}
			return strings.Join(ggrun.Set(ds), "\n")
		}
		soloA := ggrun.Run(ggrun.Opts{Dir: root, Args: []string{"./a"}})
		soloB := ggrun.Run(ggrun.Opts{Dir: root, Args: []string{"./b"}})
		if bad, why := soloA.Crashed(false); bad {
			r.Violate("crash/line-directive", why+"\n"+head(soloA.Stderr, 2000), fs)
			os.RemoveAll(root)
			continue
		}
		wantA, wantB := perPkg(soloA, "/a"), perPkg(soloB, "/b")
		if wantA == "" || wantB == "" {
			base.Harness("C11 line-directive module %d: a solo run reported nothing (a=%q b=%q)", li, wantA, wantB)
		}
		joint := [][]string{{"-debug=p", "./a", "./b"}, {"-debug=p", "./b", "./a"}, {"./a", "./b"}, {"./b", "./a"}, {"./..."}, {"./b", "./a"}, {"./a", "./b"}}
		for ji, args := range joint {
			res := ggrun.Run(ggrun.Opts{Dir: root, Args: args})
			r.Eval(1)
			lineRuns++
			r.Distinct(fmt.Sprintf("linedir/%d/%d", li, ji))
			if bad, why := res.Crashed(false); bad {
				r.Violate("crash/line-directive", why+"\n"+head(res.Stderr, 2000), fs)
				continue
			}
			if gotA, gotB := perPkg(res, "/a"), perPkg(res, "/b"); gotA != wantA || gotB != wantB {
				r.Violate("nondeterminism/unrelated-package-alongside/line-directive", fmt.Sprintf("//line ../b/b.go:%d, args %v: the diagnostics of a package differ from those of its solo run.\nsolo a: %s\njoint a: %s\nsolo b: %s\njoint b: %s", ln, args, wantA, gotA, wantB, gotB), fs)
			}
		}
		os.RemoveAll(root)
	}
	schedules["line-directive-solo-vs-joint"] = lineRuns
	r.Obs("distinct_completion_orders_seen", len(orders))
	r.Obs("actions_started_while_another_ran", overlapSeen)
	r.Obs("race_blocks", raceBlocks)
	r.Obs("race_top_frames", raceTops)
	r.Obs("schedules_compared", schedules)
	if overlapSeen == 0 && r.NViol() == 0 {
		base.Harness("C11: no overlapping analyzer actions were ever observed")
	}
	r.Finish()
}
