package main

// C07 — @ignore suppresses exactly the diagnostics in its scope that match its codes.
// One @ignore comment is inserted per run; the reference scope model (gen.Evaluate) predicts the new diagnostic set.

import (
	"fmt"
	"regexp"
	"sort"
	"strings"
	"sync"

	"verif/harness/internal/base"
	"verif/harness/internal/gen"
	"verif/harness/internal/ggrun"
)

func init() { register("C07", checkC07) }

type ignCase struct {
	placement string // trailing | lead-stmt | lead-compound | lead-decl | lead-decl-gap | file
	where     string // in | prev | next | other-file
	list      int
	variant   int // selects the sub-form of placements that have several (cycled, not drawn: every form meets every list)
}

func c07Spec(r *base.Run, i int) gen.Spec {
	return gen.Spec{Seed: r.Seed + 7000, Index: i, Hostile: i%2 == 0, Tests: false, Excluded: false, Impl: true, PerPair: 5, MinimalAnn: 1 - i%2, NoFreeT: true}
}

// applyIgnore inserts the comment; returns false when the placement does not apply to this diagnostic.
func applyIgnore(bt *gen.Built, lineID int, c ignCase, code string, rng *base.Rand) (ok bool, desc string) {
	p := bt.P
	var target *gen.Line
	for _, s := range gen.Statements(p) {
		for _, l := range append(append([]*gen.Line{}, s.N.Pre...), s.N.Post...) {
			if l.ID == lineID {
				target = l
			}
		}
	}
	if target == nil {
		return false, ""
	}
	file, chain := p.PathTo(target)
	if file == nil || len(chain) == 0 {
		return false, ""
	}
	text, lname := gen.CodeList(c.list, code, rng)
	ig := &gen.Ignore{Codes: text}
	desc = c.placement + "/" + c.where + "/" + lname
	self := chain[len(chain)-1]
	sibling := func(s gen.StmtRef, delta int) *gen.Node {
		var list []*gen.Node
		if s.Parent != nil {
			list = s.Parent.Kids
		} else {
			list = s.File.Decls
		}
		j := s.Index + delta
		if j < 0 || j >= len(list) {
			return nil
		}
		return list[j]
	}
	flat := func() []*gen.Line {
		var out []*gen.Line
		for _, d := range file.Decls {
			out = append(out, flatNode(d)...)
		}
		return out
	}
	switch c.placement {
	case "trailing":
		ls := flat()
		idx := -1
		for i, l := range ls {
			if l == target {
				idx = i
			}
		}
		switch c.where {
		case "in":
		case "prev":
			idx--
		case "next":
			idx++
		default:
			return false, ""
		}
		if idx < 0 || idx >= len(ls) || ls[idx].Trail != nil {
			return false, ""
		}
		ls[idx].Trail = ig
	case "lead-stmt":
		if !self.IsStatement() {
			return false, ""
		}
		n := self.N
		switch c.where {
		case "in":
		case "prev":
			n = sibling(self, -1)
		case "next":
			n = sibling(self, +1)
		default:
			return false, ""
		}
		if n == nil {
			return false, ""
		}
		n.Lead = append(n.Lead, ig)
	case "dangling-end-of-clause":
		// the comment is the last thing in the body of a case clause (possibly an empty one); the statement of the diagnostic
		// is the SECOND statement of the next clause: a clause has no closing token, the comment still belongs to the
		// first clause and nothing is in its scope
		if c.where != "prev" || !self.IsStatement() || len(self.N.Pre) == 0 || len(self.Parent.Pre) != 1 {
			return false, ""
		}
		if !movableIntoClause(self) {
			return false, ""
		}
		{
			head, next := "switch {", "default:"
			firstClause := &gen.Node{Pre: []*gen.Line{p.NewLine("case false:")}}
			switch c.variant % 3 {
			case 0:
				firstClause.Kids = []*gen.Node{{Pre: []*gen.Line{p.NewLine("_ = 1")}}}
				desc += "+after-statement"
			case 1:
				desc += "+empty-clause"
			case 2:
				head, next = "select {", "default:"
				firstClause.Pre[0] = p.NewLine("case <-make(chan int):")
				firstClause.Kids = []*gen.Node{{Pre: []*gen.Line{p.NewLine("_ = 1")}}}
				desc += "+select"
			}
			firstClause.Kids = append(firstClause.Kids, &gen.Node{Lead: []*gen.Ignore{ig}})
			second := &gen.Node{Pre: []*gen.Line{p.NewLine(next)}, Kids: []*gen.Node{{Pre: []*gen.Line{p.NewLine("_ = 2")}}, self.N}}
			self.Parent.Kids[self.Index] = &gen.Node{Pre: []*gen.Line{p.NewLine(head)}, Kids: []*gen.Node{firstClause, second}, Post: []*gen.Line{p.NewLine("}")}}
		}
	case "lead-first-clause":
		// the comment stands alone at the head of a switch / select body, before the first clause, and the statement of the
		// diagnostic is the only statement of that clause: it is the following statement under every reading
		if c.where != "in" || !self.IsStatement() || len(self.N.Pre) == 0 || len(self.Parent.Pre) != 1 {
			return false, ""
		}
		if !movableIntoClause(self) {
			return false, ""
		}
		{
			forms := [][3]string{{"switch {", "case true:", "tagless"}, {"switch 1 {", "case 1:", "tagged"}, {"switch any(nil).(type) {", "default:", "type-switch"}, {"switch ok := true; {", "case ok:", "init-only"}, {"select {", "default:", "select"}}
			fm := forms[c.variant%len(forms)]
			desc += "+" + fm[2]
			clause := &gen.Node{Pre: []*gen.Line{p.NewLine(fm[1])}, Kids: []*gen.Node{self.N}, Lead: []*gen.Ignore{ig}}
			sw := &gen.Node{Pre: []*gen.Line{p.NewLine(fm[0])}, Kids: []*gen.Node{clause}, Post: []*gen.Line{p.NewLine("}")}}
			if (c.variant/len(forms))%2 == 1 {
				// ... the switch being itself the last statement of an outer clause (the three nodes end at the same place)
				sw = &gen.Node{Pre: []*gen.Line{p.NewLine("switch {")}, Kids: []*gen.Node{{Pre: []*gen.Line{p.NewLine("default:")}, Kids: []*gen.Node{{Pre: []*gen.Line{p.NewLine("_ = 3")}}, sw}}}, Post: []*gen.Line{p.NewLine("}")}}
				desc += "+last-in-outer-clause"
			}
			self.Parent.Kids[self.Index] = sw
		}
	case "lead-stmt-last-in-clause":
		// the statement of the diagnostic becomes the LAST statement of a case clause (a clause has no closing token of
		// its own: the statement ends exactly where the clause ends); the comment leads it, its scope is that statement
		if c.where != "in" || !self.IsStatement() || len(self.N.Pre) == 0 {
			return false, ""
		}
		if !movableIntoClause(self) {
			return false, ""
		}
		clauseHead := []string{"default:", "case true:", "case 1 > 0, false:"}[c.variant%3]
		clause := &gen.Node{Pre: []*gen.Line{p.NewLine(clauseHead)}, Kids: []*gen.Node{self.N}}
		if rng.Bool() {
			clause.Kids = []*gen.Node{{Pre: []*gen.Line{p.NewLine("_ = 0")}}, self.N}
			desc += "+after-sibling"
		}
		sw := &gen.Node{Pre: []*gen.Line{p.NewLine("switch {")}, Kids: []*gen.Node{clause}, Post: []*gen.Line{p.NewLine("}")}}
		if clauseHead != "default:" && rng.Bool() {
			sw.Kids = append(sw.Kids, &gen.Node{Pre: []*gen.Line{p.NewLine("default:")}})
			desc += "+clause-follows"
		}
		self.Parent.Kids[self.Index] = sw
		self.N.Lead = append(self.N.Lead, ig)
	case "lead-compound":
		if c.where != "in" {
			return false, ""
		}
		var cands []gen.StmtRef
		for _, s := range chain[:len(chain)-1] {
			if s.IsStatement() {
				cands = append(cands, s)
			}
		}
		if len(cands) == 0 {
			return false, ""
		}
		cands[rng.Intn(len(cands))].N.Lead = []*gen.Ignore{ig}
	case "lead-decl", "lead-decl-gap":
		n := chain[0].N
		switch c.where {
		case "in":
		case "prev":
			n = sibling(chain[0], -1)
		case "next":
			n = sibling(chain[0], +1)
		default:
			return false, ""
		}
		if n == nil {
			return false, ""
		}
		n.Lead = append(n.Lead, ig)
		n.LeadGap = c.placement == "lead-decl-gap"
		if n.LeadGap && len(n.Doc) > 0 {
			// detached from the doc group by an ordinary comment line and a blank line is rendered only when there is no doc;
			// with a doc comment the lead simply becomes the first line of the doc group
			desc += "+doc"
		}
	case "trailing-on-closing-line":
		// the comment trails the line that CLOSES the compound or multi-line statement containing the diagnostic
		// ("}" / ")" / "} else {"): its scope is that line, not the statement that ends there
		if c.where == "prev" {
			// ... or the line that closes the statement BEFORE the diagnostic's statement ("} else {" chains, "}" of a
			// loop, ")" of a multi-line call): the diagnostic's own statement follows, and must stay
			var closing *gen.Line
			for i := len(chain) - 1; i >= 1 && closing == nil; i-- {
				if pn := sibling(chain[i], -1); pn != nil {
					if len(pn.Post) > 0 && pn.Post[len(pn.Post)-1].Trail == nil {
						closing = pn.Post[len(pn.Post)-1]
					} else if len(pn.Post) == 0 && len(pn.Pre) > 1 && pn.Pre[len(pn.Pre)-1].Trail == nil {
						closing = pn.Pre[len(pn.Pre)-1]
					}
				}
			}
			if closing == nil {
				// no compound statement ends just before: one is inserted for the purpose
				if !self.IsStatement() || !holdsStatementList(self) {
					return false, ""
				}
				forms := [][2]string{{"{", "bare-block"}, {"if true {", "if"}, {"for false {", "for"}, {"switch {", "switch"}, {"func() {", "closure"}}
				fm := forms[c.variant%len(forms)]
				closing = p.NewLine("}")
				if fm[1] == "closure" {
					closing = p.NewLine("}()")
				}
				blk := &gen.Node{Pre: []*gen.Line{p.NewLine(fm[0])}, Kids: []*gen.Node{{Pre: []*gen.Line{p.NewLine("_ = 0")}}}, Post: []*gen.Line{closing}}
				if fm[1] == "switch" {
					blk.Kids = []*gen.Node{{Pre: []*gen.Line{p.NewLine("default:")}, Kids: blk.Kids}}
				}
				kids := self.Parent.Kids
				self.Parent.Kids = append(append(append([]*gen.Node{}, kids[:self.Index]...), blk), kids[self.Index:]...)
				desc += "+inserted-" + fm[1]
			}
			closing.Trail = ig
			break
		}
		if c.where != "in" {
			return false, ""
		}
		var closing *gen.Line
		for i := len(chain) - 1; i >= 1 && closing == nil; i-- {
			n := chain[i].N
			if len(n.Post) > 0 && n.Post[len(n.Post)-1].Trail == nil && n.Post[len(n.Post)-1] != target {
				closing = n.Post[len(n.Post)-1]
			} else if len(n.Pre) > 1 && n.Pre[len(n.Pre)-1].Trail == nil && n.Pre[len(n.Pre)-1] != target {
				closing = n.Pre[len(n.Pre)-1] // last line of a multi-line statement
			}
		}
		if closing == nil {
			return false, ""
		}
		closing.Trail = ig
	case "dangling-end-of-body":
		// the comment is the last thing in the body of a compound statement that ends before the diagnostic:
		// no statement follows it in that body, so nothing is in its scope
		if c.where != "prev" {
			return false, ""
		}
		// a body that ends just before the statement of the diagnostic: either the if/for/closure statement that precedes
		// it anyway, or (most functions have none) a bare block inserted for the purpose: "{ // @ignore X }"
		if !self.IsStatement() || self.Parent == nil {
			return false, ""
		}
		if pn := sibling(self, -1); pn != nil && len(pn.Kids) > 0 && len(pn.Post) > 0 && len(pn.Pre) > 0 && !strings.HasPrefix(strings.TrimSpace(pn.Pre[0].Text), "switch") && !strings.HasPrefix(strings.TrimSpace(pn.Pre[0].Text), "select") && rng.Bool() {
			pn.Kids = append(pn.Kids, &gen.Node{Lead: []*gen.Ignore{ig}})
			desc += "+existing-body"
		} else {
			blk := &gen.Node{Pre: []*gen.Line{p.NewLine("{")}, Kids: []*gen.Node{{Lead: []*gen.Ignore{ig}}}, Post: []*gen.Line{p.NewLine("}")}}
			kids := self.Parent.Kids
			self.Parent.Kids = append(append(append([]*gen.Node{}, kids[:self.Index]...), blk), kids[self.Index:]...)
			desc += "+bare-block"
		}
	case "package-clause-trailing":
		// the comment trails the package clause: its scope is that line only, nothing is suppressed
		if c.where != "in" || file.PkgTrail != nil {
			return false, ""
		}
		file.PkgTrail = ig
		if c.variant%2 == 1 {
			file.PkgTrailKeyword = true
			desc += "+after-keyword"
		}
	case "file":
		switch c.where {
		case "in":
			file.AddHeaderIgnore(p, text)
		case "other-file":
			var others []*gen.File
			for _, f := range file.Pkg.Files {
				if f != file {
					others = append(others, f)
				}
			}
			if len(others) == 0 {
				return false, ""
			}
			others[rng.Intn(len(others))].AddHeaderIgnore(p, text)
		default:
			return false, ""
		}
	}
	return true, desc
}

var labelRe = regexp.MustCompile(`^[A-Za-z_][A-Za-z0-9_]*:($|[^=])`)

// movableIntoClause: the statement can be wrapped into a new switch clause without changing what compiles - its parent
// holds a statement list (not literal elements, group members, argument lines), it declares nothing later statements
// may refer to, and it carries no label a goto may target.
func movableIntoClause(self gen.StmtRef) bool {
	if !holdsStatementList(self) || len(self.N.Pre) == 0 {
		return false
	}
	holds := true
	first := strings.TrimSpace(self.N.Pre[0].Text)
	if !holds || strings.Contains(first, ":=") || strings.HasPrefix(first, "var ") || strings.HasPrefix(first, "const ") || strings.HasPrefix(first, "type ") {
		return false
	}
	return !labelRe.MatchString(first)
}

// holdsStatementList: the parent of the node is a function, block or clause whose children are statements.
func holdsStatementList(self gen.StmtRef) bool {
	if self.Parent == nil || len(self.Parent.Pre) != 1 {
		return false
	}
	pfirst := strings.TrimSpace(self.Parent.Pre[0].Text)
	for _, pre := range []string{"func ", "if ", "for ", "case ", "default:", "{"} {
		if strings.HasPrefix(pfirst, pre) && (strings.HasSuffix(pfirst, "{") || strings.HasSuffix(pfirst, ":")) {
			return true
		}
	}
	return false
}

func gcdInt(a, b int) int {
	for b != 0 {
		a, b = b, a%b
	}
	return a
}

func flatNode(n *gen.Node) []*gen.Line {
	var out []*gen.Line
	out = append(out, n.Pre...)
	for _, k := range n.Kids {
		out = append(out, flatNode(k)...)
	}
	return append(out, n.Post...)
}

func checkC07(replay string) {
	r := base.NewRun("C07")
	r.Rule = "for diagnostics of generated programs covering all 16 codes: insert ONE @ignore comment (placement x in/out of scope x code-list shape), and in a second phase TWO comments (outer declaration/file/compound scope + a second comment before or trailing an earlier statement, same or different code list), re-run the real binary and compare every (line, analyzer) with the reference scope model (file / declaration / statement / line scope; ALL>category>code, case-insensitive; TONL01/PKGO01 move to the next unsuppressed use); distinct = distinct (placement, where, list shape, code) combinations judged"
	r.Assume = []string{"scope model on the generator's statement extents, one statement per line", "placements the statement does not describe are not generated here (FREE)"}
	nProg := r.Pick(24, 160)
	perProg := r.Pick(48, 160)
	placements := []ignCase{}
	for _, pl := range []struct {
		p  string
		ws []string
	}{{"trailing", []string{"in", "prev", "next"}}, {"lead-stmt", []string{"in", "prev", "next"}}, {"lead-compound", []string{"in"}},
		{"lead-decl", []string{"in", "prev", "next"}}, {"lead-decl-gap", []string{"in", "next"}}, {"file", []string{"in", "other-file"}}, {"package-clause-trailing", []string{"in"}}, {"dangling-end-of-body", []string{"prev"}}, {"trailing-on-closing-line", []string{"in", "prev"}}, {"lead-stmt-last-in-clause", []string{"in"}}, {"dangling-end-of-clause", []string{"prev"}}, {"lead-first-clause", []string{"in"}}} {
		for _, w := range pl.ws {
			placements = append(placements, ignCase{placement: pl.p, where: w})
		}
	}
	// every (placement, code-list shape) pair, in one seed-determined order that all programs walk through in turn
	pairOrder := make([]int, len(placements)*gen.NCodeLists())
	for i := range pairOrder {
		pairOrder[i] = i
	}
	base.Shuffle(base.NewRand(r.Seed, "c07-pairs"), pairOrder)
	var mu sync.Mutex
	codesSeen := map[string]int{}
	combos := map[string]int{}
	base.Par(nProg, 0, func(pi int) {
		spec := c07Spec(r, pi)
		cfg := gen.DefaultCfg()
		bt0 := gen.Build(spec)
		pr0 := runProgram(bt0, gen.RenderOpts{}, cfg, false)
		if pr0.crashed {
			r.Violate("crash/"+crashKey(pr0.res.Stderr), "base program crashed: "+pr0.crashWhy+"\n"+head(pr0.res.Stderr, 3000), replayFiles(pr0, nil))
			return
		}
		// diagnostics by code, mapped to line ids
		byCode := map[string][]int{}
		for _, d := range pr0.res.Diags {
			if l := bt0.P.FindLine(d.File, d.Line); l != nil {
				byCode[d.Code] = append(byCode[d.Code], l.ID)
			}
		}
		// ids of diagnostics that sit in statements spanning several lines: targeted half of the time
		multi := map[int]bool{}
		for _, st := range gen.Statements(bt0.P) {
			if len(st.N.Pre) > 1 && len(st.N.Kids) == 0 && len(st.N.Post) == 0 {
				for _, l := range st.N.Pre {
					multi[l.ID] = true
				}
			}
		}
		inFirstDecl := map[int]bool{}
		for _, pk := range bt0.P.Pkgs {
			for _, f := range pk.Files {
				if len(f.Decls) > 0 {
					for _, l := range flatNode(f.Decls[0]) {
						inFirstDecl[l.ID] = true
					}
				}
			}
		}
		byCodeMulti := map[string][]int{}
		for c, ids := range byCode {
			for _, id := range ids {
				if multi[id] {
					byCodeMulti[c] = append(byCodeMulti[c], id)
				}
			}
		}
		var codes []string
		for c := range byCode {
			codes = append(codes, c)
		}
		sort.Strings(codes)
		if len(codes) == 0 {
			return
		}
		rng := base.NewRand(r.Seed, fmt.Sprintf("c07-%d", pi))
		for k := 0; k < perProg; k++ {
			code := codes[(k+pi)%len(codes)]
			ids := byCode[code]
			if m := byCodeMulti[code]; len(m) > 0 && k%2 == 0 {
				ids = m
			}
			pair := pairOrder[(k+pi*perProg)%len(pairOrder)]
			c := placements[pair/gen.NCodeLists()]
			if c.placement == "package-clause-trailing" {
				// the declaration that follows the package clause is where a mis-scoped comment would show
				var firsts []int
				for _, id := range byCode[code] {
					if inFirstDecl[id] {
						firsts = append(firsts, id)
					}
				}
				if len(firsts) > 0 {
					ids = firsts
				}
			}
			lineID := ids[rng.Intn(len(ids))]
			c.list = pair % gen.NCodeLists()
			c.variant = c.list + pi + k/len(pairOrder)
			bt := gen.Build(spec)
			ok, desc := applyIgnore(bt, lineID, c, code, rng)
			if !ok {
				continue
			}
			pr := runProgram(bt, gen.RenderOpts{}, cfg, false)
			r.Eval(1)
			if pr.crashed {
				r.Violate("crash/"+crashKey(pr.res.Stderr), "program with @ignore "+desc+" crashed: "+pr.crashWhy, replayFiles(pr, nil))
				continue
			}
			mu.Lock()
			codesSeen[code]++
			combos[desc+"/"+code]++
			mu.Unlock()
			seen := map[string]bool{}
			for _, m := range pr.mm {
				parts := strings.SplitN(m.Key, "/", 3)
				dir := "not-suppressed-or-spurious"
				if parts[1] == "missed" {
					dir = "over-suppressed-or-missed"
				}
				key := fmt.Sprintf("IGN/%s/%s/%s/%s", c.placement, c.where, dir, parts[2])
				if seen[key] {
					continue
				}
				seen[key] = true
				tl := bt.P.FindLine("", 0)
				_ = tl
				r.Violate(key, fmt.Sprintf("program %d, @ignore placement=%s for a %s diagnostic (line id %d): %s", pi, desc, code, lineID, m.Detail), replayFiles(pr, map[string]string{"case.txt": desc + " code=" + code}))
			}
			if k < 2 && pi < 3 {
				r.Sample(map[string]any{"placement": desc, "code": code, "diagnostics_before": len(pr0.res.Diags), "diagnostics_after": len(pr.res.Diags), "mismatches": len(pr.mm)})
			}
		}
		// two comments in one file: an outer scope (declaration or file) and a second comment inside or next to it, with the
		// same or a different code list — the scopes are independent of each other
		for k := 0; k < perProg/3; k++ {
			code := codes[(k*5+pi)%len(codes)]
			ids := byCode[code]
			lineID := ids[rng.Intn(len(ids))]
			bt := gen.Build(spec)
			outer := ignCase{placement: []string{"lead-decl", "file", "lead-decl-gap", "lead-compound"}[k%4], where: "in", list: []int{0, 1, 2}[k%3]}
			ok, d1 := applyIgnore(bt, lineID, outer, code, rng)
			if !ok {
				continue
			}
			// the second comment: in front of / trailing an EARLIER statement of the same top-level declaration (or of the file)
			var target *gen.Line
			for _, st := range gen.Statements(bt.P) {
				for _, l := range append(append([]*gen.Line{}, st.N.Pre...), st.N.Post...) {
					if l.ID == lineID {
						target = l
					}
				}
			}
			file, chain := bt.P.PathTo(target)
			if file == nil {
				continue
			}
			var earlier []gen.StmtRef
			for _, st := range gen.Statements(bt.P) {
				if st.File == file && st.IsStatement() && len(st.N.Pre) > 0 && st.N.Pre[0].ID < lineID && len(st.N.Lead) == 0 {
					inSameDecl := false
					_, ch := bt.P.PathTo(st.N.Pre[0])
					if len(ch) > 0 && ch[0].N == chain[0].N {
						inSameDecl = true
					}
					if inSameDecl || outer.placement == "file" {
						earlier = append(earlier, st)
					}
				}
			}
			if len(earlier) == 0 {
				continue
			}
			st := earlier[rng.Intn(len(earlier))]
			text2, l2 := gen.CodeList(outer.list, code, rng) // same list as the outer comment ...
			if k%2 == 1 {
				text2, l2 = gen.CodeList((outer.list+1+rng.Intn(5))%gen.NCodeLists(), code, rng) // ... or another one
			}
			d2 := "second-lead-stmt"
			if k%3 == 2 && st.N.Pre[0].Trail == nil {
				st.N.Pre[0].Trail = &gen.Ignore{Codes: text2}
				d2 = "second-trailing"
			} else {
				st.N.Lead = append(st.N.Lead, &gen.Ignore{Codes: text2})
			}
			same := "same-list"
			if k%2 == 1 {
				same = "other-list:" + l2
			}
			desc := d1 + "+" + d2 + "/" + same
			pr := runProgram(bt, gen.RenderOpts{}, cfg, false)
			r.Eval(1)
			if pr.crashed {
				r.Violate("crash/"+crashKey(pr.res.Stderr), "program with two @ignore comments "+desc+" crashed: "+pr.crashWhy, replayFiles(pr, nil))
				continue
			}
			mu.Lock()
			combos["pair/"+outer.placement+"/"+d2+"/"+same+"/"+code]++
			mu.Unlock()
			seen := map[string]bool{}
			for _, m := range pr.mm {
				parts := strings.SplitN(m.Key, "/", 3)
				dir := "not-suppressed-or-spurious"
				if parts[1] == "missed" {
					dir = "over-suppressed-or-missed"
				}
				key := fmt.Sprintf("IGN/pair/%s+%s/%s/%s", outer.placement, d2, dir, parts[2])
				if seen[key] {
					continue
				}
				seen[key] = true
				r.Violate(key, fmt.Sprintf("program %d, two @ignore comments (%s) around a %s diagnostic (line id %d): %s", pi, desc, code, lineID, m.Detail), replayFiles(pr, map[string]string{"case.txt": desc + " code=" + code}))
			}
		}
	})
	for k := range combos {
		r.Distinct(k)
	}
	r.Obs("codes_targeted", codesSeen)
	r.Obs("programs", nProg)
	// cases judged per placement/where (first two components of the combination key; pair/... = two-comment phase)
	perPlacement := map[string]int{}
	for k, n := range combos {
		parts := strings.SplitN(k, "/", 3)
		if len(parts) >= 2 {
			perPlacement[parts[0]+"/"+parts[1]] += n
		}
	}
	r.Obs("cases_per_placement", perPlacement)
	if len(codesSeen) < 16 && r.NViol() == 0 {
		missing := []string{}
		for _, c := range gen.AllCodes {
			if codesSeen[c] == 0 {
				missing = append(missing, c)
			}
		}
		r.Obs("codes_never_targeted", missing)
	}
	r.Finish()
}

var _ = ggrun.Bin
