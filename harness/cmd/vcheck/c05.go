package main

// C05 — @implements verdicts agree with Go's own type checker.
// Events: diagnostics of implementschecker (code + listed missing methods) on generated (T, I) pairs.
// Oracle: go/types on the same generated module (method sets, types.Identical), import binding per file.

import (
	"fmt"
	"go/ast"
	"go/types"
	"os"
	"regexp"
	"sort"
	"strconv"
	"strings"
	"sync"

	"golang.org/x/tools/go/packages"

	"verif/harness/internal/base"
	"verif/harness/internal/ggrun"
)

func init() { register("C05", checkC05) }

// ---------------------------------------------------------------- type expressions

type tx struct {
	kind   string // basic named alias ptr slice array map func chan
	name   string
	pkg    string // "ifc" | "impl" | "" for basic
	elem   *tx
	key    *tx
	n      int
	params []*tx
	res    []*tx
	dir    string
}

func (t *tx) render(ctx string, qual map[string]string) string {
	switch t.kind {
	case "basic":
		return t.name
	case "named", "alias":
		if t.pkg == ctx {
			return t.name
		}
		return qual[t.pkg] + "." + t.name
	case "ptr":
		return "*" + t.elem.render(ctx, qual)
	case "slice":
		return "[]" + t.elem.render(ctx, qual)
	case "array":
		return fmt.Sprintf("[%d]%s", t.n, t.elem.render(ctx, qual))
	case "map":
		return "map[" + t.key.render(ctx, qual) + "]" + t.elem.render(ctx, qual)
	case "chan":
		return t.dir + " " + t.elem.render(ctx, qual)
	case "structlit":
		// an anonymous struct type; name holds the tag of its only field (tags are part of type identity)
		if t.name == "" {
			return "struct{ ID int }"
		}
		return "struct {\n\t\tID int `" + t.name + "`\n\t}"
	case "func":
		var ps, rs []string
		for _, p := range t.params {
			ps = append(ps, p.render(ctx, qual))
		}
		for _, p := range t.res {
			rs = append(rs, p.render(ctx, qual))
		}
		s := "func(" + strings.Join(ps, ", ") + ")"
		if len(rs) == 1 {
			s += " " + rs[0]
		} else if len(rs) > 1 {
			s += " (" + strings.Join(rs, ", ") + ")"
		}
		return s
	}
	return "int"
}

func (t *tx) clone() *tx {
	if t == nil {
		return nil
	}
	c := *t
	c.elem, c.key = t.elem.clone(), t.key.clone()
	c.params, c.res = nil, nil
	for _, p := range t.params {
		c.params = append(c.params, p.clone())
	}
	for _, p := range t.res {
		c.res = append(c.res, p.clone())
	}
	return &c
}

func basic(n string) *tx { return &tx{kind: "basic", name: n} }

var c05basics = []string{"int", "string", "bool", "error", "int64", "float64", "byte", "uint8", "rune", "int32", "any", "interface{}"}

func randType(r *base.Rand, depth int, allowImpl bool) *tx {
	if depth <= 0 || r.Chance(2, 5) {
		switch r.Intn(6) {
		case 0:
			return &tx{kind: "named", pkg: "ifc", name: "Item"}
		case 1:
			return &tx{kind: "named", pkg: "ifc", name: "ID"}
		case 2:
			if allowImpl {
				return &tx{kind: "named", pkg: "impl", name: "Loc"}
			}
		}
		return basic(base.Pick(r, c05basics[:6]))
	}
	switch r.Intn(7) {
	case 0, 1:
		return &tx{kind: "ptr", elem: randType(r, depth-1, allowImpl)}
	case 2:
		return &tx{kind: "slice", elem: randType(r, depth-1, allowImpl)}
	case 3:
		return &tx{kind: "array", n: 1 + r.Intn(3), elem: randType(r, depth-1, allowImpl)}
	case 4:
		return &tx{kind: "map", key: basic(base.Pick(r, []string{"string", "int"})), elem: randType(r, depth-1, allowImpl)}
	case 5:
		return &tx{kind: "chan", dir: base.Pick(r, []string{"chan", "<-chan", "chan<-"}), elem: randType(r, depth-1, allowImpl)}
	default:
		f := &tx{kind: "func"}
		for i := 0; i < r.Intn(3); i++ {
			f.params = append(f.params, randType(r, depth-2, allowImpl))
		}
		for i := 0; i < r.Intn(2); i++ {
			f.res = append(f.res, randType(r, depth-2, allowImpl))
		}
		return f
	}
}

type c05method struct {
	name     string
	params   []*tx
	res      []*tx
	variadic bool
}

func (m *c05method) sig(ctx string, qual map[string]string) string {
	var ps, rs []string
	for i, p := range m.params {
		s := p.render(ctx, qual)
		if m.variadic && i == len(m.params)-1 {
			s = "..." + s
		}
		ps = append(ps, fmt.Sprintf("p%d %s", i, s))
	}
	for _, p := range m.res {
		rs = append(rs, p.render(ctx, qual))
	}
	s := m.name + "(" + strings.Join(ps, ", ") + ")"
	if len(rs) == 1 {
		s += " " + rs[0]
	} else if len(rs) > 1 {
		s += " (" + strings.Join(rs, ", ") + ")"
	}
	return s
}

func (m *c05method) clone() *c05method {
	c := &c05method{name: m.name, variadic: m.variadic}
	for _, p := range m.params {
		c.params = append(c.params, p.clone())
	}
	for _, p := range m.res {
		c.res = append(c.res, p.clone())
	}
	return c
}

// ---------------------------------------------------------------- one (T, I) pair

type c05pair struct {
	idx         int
	feature     string // the single hostile feature ("plain" = exact copy)
	ifacePkg    string // "ifc" | "impl" | "alt"
	ifaceName   string
	imethods    []*c05method
	embeds      string // name of an embedded interface (same package) or ""
	deep        bool   // the embedded interface itself embeds another one that holds the first method
	tname       string
	tkind       string // struct | int | iface
	tmethods    []*c05method
	recvPtr     []bool
	viaEmbed    string // "", "value", "ptr", "iface": methods come from an embedded helper
	ptrContract bool
	qualifier   string // text before the dot in the annotation ("" = none)
	annName     string // interface name written in the annotation
	file        int    // which file of impl
	extra       string // a second @implements line on the same type: "<kind>-<before|after>" or ""
	xsealed     bool   // the interface (declared in package altname) embeds ifc.Sealed, whose unexported method belongs to ifc
}

var c05features = []string{
	"plain", "plain", "plain", "ptr-depth-plus", "ptr-depth-minus", "byte-uint8", "rune-int32", "any-iface", "alias-named", "alias-basic", "int-int64",
	"slice-variadic", "chan-dir", "result-count", "param-count", "method-renamed", "method-dropped", "recv-pointer", "embed-value", "embed-ptr", "embed-iface",
	"iface-embeds-iface", "T-is-interface", "T-nonstruct", "inner-map-elem", "inner-func-result", "array-len", "named-other-pkg", "param-order", "same-pkgname-composite", "same-pkgname-named", "sealed-promoted-from-embedded-base", "sealed-own-unexported-method", "deep-embedding-all-present", "deep-embedding-deep-method-missing", "deep-embedding-deep-method-wrong", "T-is-alias-all-present", "T-is-alias-method-dropped", "xsealed-promoted-from-embedded-base", "xsealed-own-unexported-method", "struct-tag-differs", "struct-tag-same",
}

func genPair(r *base.Rand, idx int, feature string) *c05pair {
	p := &c05pair{idx: idx, feature: feature, tname: fmt.Sprintf("T%d", idx), ifaceName: fmt.Sprintf("I%d", idx), tkind: "struct"}
	p.ifacePkg = base.Pick(r, []string{"ifc", "ifc", "impl", "alt"})
	if feature != "plain" && p.ifacePkg == "alt" {
		p.ifacePkg = "ifc" // at most one hostile feature per pair: the package whose name differs from its directory is a feature of its own
	}
	if strings.HasPrefix(feature, "sealed-") {
		p.ifacePkg = "ifc"
	}
	if strings.HasPrefix(feature, "xsealed-") {
		p.ifacePkg = "alt"
	}
	allowImpl := p.ifacePkg == "impl"
	nm := 1 + r.Intn(3)
	for i := 0; i < nm; i++ {
		m := &c05method{name: fmt.Sprintf("M%d", i)}
		for k := 0; k < r.Intn(3); k++ {
			m.params = append(m.params, randType(r, 2, allowImpl))
		}
		for k := 0; k < r.Intn(3); k++ {
			m.res = append(m.res, randType(r, 2, allowImpl))
		}
		if len(m.params) > 0 && r.Chance(1, 5) {
			m.variadic = true
		}
		p.imethods = append(p.imethods, m)
	}
	m0 := p.imethods[0]
	ensureParam := func(t *tx) {
		m0.params = append([]*tx{t}, m0.params...)
	}
	// shape the interface so that the feature applies
	switch feature {
	case "ptr-depth-plus", "ptr-depth-minus":
		ensureParam(&tx{kind: "ptr", elem: base.Pick(r, []*tx{basic("int"), {kind: "named", pkg: "ifc", name: "Item"}})})
	case "byte-uint8":
		ensureParam(basic(base.Pick(r, []string{"byte", "uint8"})))
	case "rune-int32":
		ensureParam(basic(base.Pick(r, []string{"rune", "int32"})))
	case "any-iface":
		ensureParam(basic(base.Pick(r, []string{"any", "interface{}"})))
	case "alias-named", "named-other-pkg", "same-pkgname-named":
		ensureParam(&tx{kind: "named", pkg: "ifc", name: "Item"})
	case "same-pkgname-composite":
		ensureParam(base.Pick(r, []*tx{{kind: "slice", elem: &tx{kind: "named", pkg: "ifc", name: "Item"}}, {kind: "map", key: basic("string"), elem: &tx{kind: "ptr", elem: &tx{kind: "named", pkg: "ifc", name: "Item"}}}, {kind: "func", params: []*tx{{kind: "named", pkg: "ifc", name: "Item"}}}}))
	case "alias-basic", "int-int64":
		ensureParam(basic("int"))
	case "slice-variadic":
		m0.variadic = false
		m0.params = append(m0.params, &tx{kind: "slice", elem: basic("string")})
	case "struct-tag-differs":
		ensureParam(base.Pick(r, []*tx{{kind: "structlit"}, {kind: "slice", elem: &tx{kind: "structlit"}}, {kind: "structlit", name: `json:"id"`}}))
	case "struct-tag-same":
		ensureParam(&tx{kind: "structlit", name: `json:"id"`})
	case "chan-dir":
		ensureParam(&tx{kind: "chan", dir: "chan", elem: basic("int")})
	case "inner-map-elem":
		ensureParam(&tx{kind: "map", key: basic("string"), elem: basic("int")})
	case "inner-func-result":
		ensureParam(&tx{kind: "func", params: []*tx{basic("int")}, res: []*tx{basic("string")}})
	case "array-len":
		ensureParam(&tx{kind: "array", n: 2, elem: basic("int")})
	case "param-order":
		m0.variadic = false
		m0.params = []*tx{basic("int"), basic("string")}
	}
	if strings.HasPrefix(feature, "sealed-") {
		// a "sealed" interface of package ifc: it has an unexported method, which only ifc can provide
		p.ifacePkg = "ifc"
		for _, m := range p.imethods {
			for _, x := range append(append([]*tx{}, m.params...), m.res...) {
				_ = x
			}
		}
		p.imethods = append(p.imethods, &c05method{name: "sealed"})
	}
	for _, m := range p.imethods {
		p.tmethods = append(p.tmethods, m.clone())
		p.recvPtr = append(p.recvPtr, false)
	}
	if strings.HasPrefix(feature, "xsealed-") {
		// the sealed method reaches the interface through an embedded interface of ANOTHER package
		p.ifacePkg, p.xsealed = "alt", true
		if feature == "xsealed-own-unexported-method" {
			p.tmethods = append(p.tmethods, &c05method{name: "sealed"}) // impl's own sealed() is not ifc's
			p.recvPtr = append(p.recvPtr, false)
		} else {
			p.viaEmbed = "sealbase"
		}
	}
	if feature == "sealed-promoted-from-embedded-base" {
		p.tmethods = p.tmethods[:len(p.tmethods)-1] // sealed() comes from the embedded ifc.SealBase
		p.recvPtr = p.recvPtr[:len(p.recvPtr)-1]
		p.viaEmbed = "sealbase"
	}
	t0 := p.tmethods[0]
	switch feature {
	case "ptr-depth-plus":
		t0.params[0] = &tx{kind: "ptr", elem: t0.params[0]}
	case "ptr-depth-minus":
		t0.params[0] = t0.params[0].elem
	case "byte-uint8":
		t0.params[0] = basic(map[string]string{"byte": "uint8", "uint8": "byte"}[t0.params[0].name])
	case "rune-int32":
		t0.params[0] = basic(map[string]string{"rune": "int32", "int32": "rune"}[t0.params[0].name])
	case "any-iface":
		t0.params[0] = basic(map[string]string{"any": "interface{}", "interface{}": "any"}[t0.params[0].name])
	case "alias-named":
		t0.params[0] = &tx{kind: "alias", pkg: "ifc", name: "AliasItem"}
	case "named-other-pkg":
		t0.params[0] = &tx{kind: "named", pkg: "alt", name: "Item"} // same name, other package
	case "same-pkgname-named":
		t0.params[0] = &tx{kind: "named", pkg: "ifc2", name: "Item"} // m5/v2/ifc also declares package ifc
	case "same-pkgname-composite":
		var swap func(t *tx)
		swap = func(t *tx) {
			if t == nil {
				return
			}
			if t.kind == "named" && t.pkg == "ifc" {
				t.pkg = "ifc2"
			}
			swap(t.elem)
			swap(t.key)
			for _, x := range t.params {
				swap(x)
			}
		}
		swap(t0.params[0])
	case "alias-basic":
		t0.params[0] = &tx{kind: "alias", pkg: "ifc", name: "AliasInt"}
	case "int-int64":
		t0.params[0] = basic("int64")
	case "slice-variadic":
		t0.variadic = true
		t0.params[len(t0.params)-1] = basic("string")
	case "struct-tag-differs":
		// the same field, another (or no) tag: a different type
		st := t0.params[0]
		if st.kind == "slice" {
			st = st.elem
		}
		if st.name == "" {
			st.name = `json:"id"`
		} else {
			st.name = base.Pick(r, []string{"", `json:"ID"`})
		}
	case "chan-dir":
		t0.params[0].dir = "<-chan"
	case "result-count":
		if len(t0.res) > 0 {
			t0.res = t0.res[1:]
		} else {
			t0.res = append(t0.res, basic("error"))
		}
	case "param-count":
		t0.variadic = false
		t0.params = append(t0.params, basic("int"))
	case "method-renamed":
		t0.name = strings.ToLower(t0.name[:1]) + t0.name[1:] + "x"
	case "method-dropped":
		p.tmethods = p.tmethods[1:]
		p.recvPtr = p.recvPtr[1:]
	case "recv-pointer":
		p.recvPtr[0] = true
	case "embed-value":
		p.viaEmbed = "value"
	case "embed-ptr":
		p.viaEmbed = "ptr"
	case "embed-iface":
		p.viaEmbed = "iface"
	case "deep-embedding-all-present":
		p.embeds, p.deep = p.ifaceName+"Base", true
	case "deep-embedding-deep-method-missing":
		p.embeds, p.deep = p.ifaceName+"Base", true
		p.tmethods = p.tmethods[1:]
		p.recvPtr = p.recvPtr[1:]
	case "deep-embedding-deep-method-wrong":
		p.embeds, p.deep = p.ifaceName+"Base", true
		t0.params = append(t0.params, basic("bool"))
		t0.variadic = false
	case "T-is-alias-all-present":
		p.viaEmbed = "alias" // type T = E; the methods are E's
	case "T-is-alias-method-dropped":
		p.viaEmbed = "alias"
		p.tmethods = p.tmethods[1:]
		p.recvPtr = p.recvPtr[1:]
	case "iface-embeds-iface":
		p.embeds = p.ifaceName + "Base"
	case "T-is-interface":
		p.tkind = "iface"
	case "T-nonstruct":
		p.tkind = "int"
	case "inner-map-elem":
		t0.params[0].elem = basic("int64")
	case "inner-func-result":
		t0.params[0].res = []*tx{basic("error")}
	case "array-len":
		t0.params[0].n = 3
	case "param-order":
		t0.params = []*tx{basic("string"), basic("int")}
	}
	p.ptrContract = r.Bool()
	if feature == "recv-pointer" && r.Chance(2, 3) {
		p.ptrContract = false
	}
	if (feature == "embed-ptr" || feature == "T-is-interface") && r.Chance(2, 3) {
		p.ptrContract = false
	}
	p.annName = p.ifaceName
	return p
}

// ---------------------------------------------------------------- module rendering

type c05module struct {
	files map[string]string
	pairs []*c05pair
	// per impl file: how packages are imported
	fileQual []map[string]string
	special  map[int]string // pair idx -> annotation feature (IMPL01/IMPL02/… cases)
}

// featureStride: the modules start their walk through the feature list this far apart - co-prime with the length of the
// list and with the cycle lengths (7, 8, 2) of the annotation-level variations that are derived from the same counter, so that
// every feature meets every variation.
func featureStride() int {
	s := 11
	for gcdInt(s, len(c05features)) != 1 || s%7 == 0 || s%2 == 0 {
		s++
	}
	return s
}

func genModule(r *base.Rand, nPairs int, startFeature int) *c05module {
	m := &c05module{files: map[string]string{"go.mod": "module m5\n\ngo 1.25\n"}, special: map[int]string{}}
	// import styles of the three impl files
	m.fileQual = []map[string]string{
		{"ifc": "ifc", "alt": "altname", "ifc2": "ifc2"}, // plain imports; package m5/yy declares name altname
		{"ifc": "ii", "alt": "aa", "ifc2": "ifc2"},       // explicit aliases
		{"ifc": "aa", "alt": "ii", "ifc2": "ifc2"},       // the same alias names as file 1, bound the other way round
	}
	for i := 0; i < nPairs; i++ {
		f := c05features[(startFeature+i)%len(c05features)]
		p := genPair(base.NewRand(int64(r.U64()>>1), "pair"), i, f)
		p.file = i % 3
		m.pairs = append(m.pairs, p)
	}
	// annotation-level features on some plain pairs
	annFeatures := []string{"unimported-qualifier", "missing-interface", "not-an-interface", "dir-name-qualifier", "blank-import", "imported-only-by-sibling-file", "predeclared-name-unqualified", "predeclared-name-qualified", "underscore-qualifier"}
	k := 0
	for _, p := range m.pairs {
		if p.feature == "plain" && p.ifacePkg != "impl" {
			m.special[p.idx] = annFeatures[(k+startFeature)%len(annFeatures)]
			k++
		}
	}
	qualIfc := map[string]string{"alt": "altname", "impl": "impl"}
	var ifc, alt strings.Builder
	ifc.WriteString("package ifc\n\ntype Item struct{ N int }\n\ntype ID int\n\ntype AliasItem = Item\n\ntype AliasInt = int\n\n// SealBase lets other packages implement sealed interfaces by embedding it.\ntype SealBase struct{}\n\nfunc (SealBase) sealed() {}\n\n// Sealed is embedded by interfaces of other packages.\ntype Sealed interface{ sealed() }\n\n")
	alt.WriteString("package altname\n\nimport \"m5/ifc\"\n\nvar _ ifc.ID\n\ntype Item struct{ Other string }\n\n")
	implFiles := []*strings.Builder{{}, {}, {}, {}}
	implFiles[0].WriteString("package impl\n\nimport (\n\tifc0 \"m5/aa/ifc\"\n\t_ \"m5/ab/ifc\"\n\t\"m5/ifc\"\n\tifc2 \"m5/v2/ifc\"\n\t\"m5/yy\"\n)\n\nvar _ ifc0.Item\nvar _ ifc.ID\nvar _ altname.Item\nvar _ ifc2.Item\n\ntype Loc struct{}\n\ntype LocAlias = Loc\n\n// TinyX and EmptyX are targets of second annotation lines.\ntype TinyX interface{ TinyM() }\n\ntype EmptyX interface{}\n\n")
	implFiles[1].WriteString("package impl\n\nimport (\n\tii `m5/ifc`\n\tifc2 \"m5/v2/ifc\"\n\taa \"m5/yy\"\n)\n\nvar _ ii.ID\nvar _ aa.Item\nvar _ ifc2.Item\n\n")
	implFiles[2].WriteString("package impl\n\nimport (\n\taa \"m5/ifc\"\n\tifc2 \"m5/v2/ifc\"\n\tii \"m5/yy\"\n)\n\nvar _ aa.ID\nvar _ ii.Item\nvar _ ifc2.Item\n\n")
	implFiles[3].WriteString("package impl\n\nimport _ \"m5/ifc\"\n\n") // blank import only
	for _, p := range m.pairs {
		// interface
		var w *strings.Builder
		ctx := p.ifacePkg
		qual := map[string]string{}
		switch p.ifacePkg {
		case "ifc":
			w, qual = &ifc, qualIfc
		case "alt":
			w, qual = &alt, map[string]string{"ifc": "ifc"}
		default:
			w, qual = implFiles[p.file], m.fileQual[p.file]
		}
		if p.embeds != "" && p.deep {
			fmt.Fprintf(w, "type %sRoot interface {\n\t%s\n}\n\n", p.embeds, p.imethods[0].sig(ctx, qual))
			fmt.Fprintf(w, "type %s interface {\n\t%sRoot\n}\n\n", p.embeds, p.embeds)
			fmt.Fprintf(w, "type %s interface {\n\t%s\n", p.ifaceName, p.embeds)
			for _, im := range p.imethods[1:] {
				fmt.Fprintf(w, "\t%s\n", im.sig(ctx, qual))
			}
			w.WriteString("}\n\n")
		} else if p.embeds != "" {
			fmt.Fprintf(w, "type %s interface {\n\t%s\n}\n\n", p.embeds, p.imethods[0].sig(ctx, qual))
			fmt.Fprintf(w, "type %s interface {\n\t%s\n", p.ifaceName, p.embeds)
			for _, im := range p.imethods[1:] {
				fmt.Fprintf(w, "\t%s\n", im.sig(ctx, qual))
			}
			w.WriteString("}\n\n")
		} else {
			fmt.Fprintf(w, "type %s interface {\n", p.ifaceName)
			if p.xsealed {
				fmt.Fprintf(w, "\tifc.Sealed\n")
			}
			for _, im := range p.imethods {
				fmt.Fprintf(w, "\t%s\n", im.sig(ctx, qual))
			}
			w.WriteString("}\n\n")
		}
		// annotation
		fi := p.file
		tq := m.fileQual[fi]
		q := ""
		switch p.ifacePkg {
		case "ifc":
			q = tq["ifc"]
		case "alt":
			q = tq["alt"]
		}
		ann := p.annName
		switch m.special[p.idx] {
		case "unimported-qualifier":
			q = "nosuchpkg"
		case "missing-interface":
			ann = "NoSuch" + p.ifaceName
		case "predeclared-name-unqualified":
			// error / any are declared by no package of the module: IMPL02, whatever the type's methods are
			q, ann = "", []string{"error", "any"}[p.idx%2]
		case "predeclared-name-qualified":
			q, ann = tq["ifc"], []string{"error", "any", "comparable"}[p.idx%3]
		case "not-an-interface":
			q, ann = tq["ifc"], "Item"
		case "dir-name-qualifier":
			if p.ifacePkg == "alt" && fi == 0 {
				q = "yy"
			} else {
				delete(m.special, p.idx)
			}
		case "imported-only-by-sibling-file":
			// the qualifier is imported by other files of the package, not by this one: IMPL01
			if p.ifacePkg == "alt" && !usesPkg(p, "alt") && !usesPkg(p, "ifc") && !usesPkg(p, "impl") {
				fi = 3
				q = "altname"
			} else {
				delete(m.special, p.idx)
			}
		case "underscore-qualifier":
			// `_` is the name of the file's blank imports, which bind nothing: IMPL01 (file 0 blank-imports m5/ab/ifc)
			if fi == 0 {
				q = "_"
			} else {
				delete(m.special, p.idx)
			}
		case "blank-import":
			if p.ifacePkg == "ifc" && !usesPkg(p, "alt") && !usesPkg(p, "ifc") && !usesPkg(p, "impl") {
				fi = 3
				q = "ifc"
			} else {
				delete(m.special, p.idx)
			}
		}
		p.qualifier = q
		tw := implFiles[fi]
		tq = map[string]string{"ifc": "ifc", "alt": "altname"}
		if fi < 3 {
			tq = m.fileQual[fi]
		}
		amp := ""
		if p.ptrContract {
			amp = "&"
		}
		full := ann
		if q != "" {
			full = q + "." + ann
		}
		// a second annotation line on the same type: every line is judged on its own
		extraLine := ""
		if m.special[p.idx] == "" {
			switch (p.idx*5 + startFeature) % 7 {
			case 2:
				p.extra, extraLine = "unimported", "// @implements nosuchpkg.Thing\n"
			case 3:
				p.extra, extraLine = "missing", "// @implements NoSuchIface\n"
			case 4:
				p.extra, extraLine = "tiny", "// @implements TinyX\n"
			case 5:
				p.extra, extraLine = "empty", "// @implements &EmptyX\n"
			}
		}
		before, after := "", ""
		if p.extra != "" {
			if ((p.idx+startFeature)/7)%2 == 0 {
				p.extra, before = p.extra+"-before", extraLine
			} else {
				p.extra, after = p.extra+"-after", extraLine
			}
		}
		fmt.Fprintf(tw, "// %s is generated (feature %s).\n%s// @implements %s%s\n%s", p.tname, p.feature, before, amp, full, after)
		body := func(tm *c05method) string {
			if len(tm.res) == 0 {
				return "{}"
			}
			return "{ panic(0) }"
		}
		switch p.tkind {
		case "iface":
			fmt.Fprintf(tw, "type %s interface {\n", p.tname)
			for _, tm := range p.tmethods {
				fmt.Fprintf(tw, "\t%s\n", tm.sig("impl", tq))
			}
			tw.WriteString("}\n\n")
			continue
		case "int":
			fmt.Fprintf(tw, "type %s int\n\n", p.tname)
		default:
			switch p.viaEmbed {
			case "value":
				fmt.Fprintf(tw, "type %s struct{ E%d }\n\ntype E%d struct{}\n\n", p.tname, p.idx, p.idx)
			case "alias":
				fmt.Fprintf(tw, "type %s = E%d\n\ntype E%d struct{}\n\n", p.tname, p.idx, p.idx)
			case "ptr":
				fmt.Fprintf(tw, "type %s struct{ *E%d }\n\ntype E%d struct{}\n\n", p.tname, p.idx, p.idx)
			case "sealbase":
				fmt.Fprintf(tw, "type %s struct{ %s.SealBase }\n\n", p.tname, tq["ifc"])
			case "iface":
				fmt.Fprintf(tw, "type %s struct{ E%d }\n\ntype E%d interface {\n", p.tname, p.idx, p.idx)
				for _, tm := range p.tmethods {
					fmt.Fprintf(tw, "\t%s\n", tm.sig("impl", tq))
				}
				tw.WriteString("}\n\n")
				continue
			default:
				fmt.Fprintf(tw, "type %s struct{}\n\n", p.tname)
			}
		}
		recvT := p.tname
		if p.viaEmbed == "value" || p.viaEmbed == "ptr" || p.viaEmbed == "alias" {
			recvT = fmt.Sprintf("E%d", p.idx)
		}
		for i, tm := range p.tmethods {
			star := ""
			if p.recvPtr[i] || (p.viaEmbed == "ptr" && i%2 == 0) {
				star = "*"
			}
			fmt.Fprintf(tw, "func (r %s%s) %s %s\n\n", star, recvT, tm.sig("impl", tq), body(tm))
		}
	}
	// twins: the same written qualifier ("ii" / "aa") names m5/ifc in one file and m5/yy in its sibling, and both packages
	// declare an interface of the pair's name; the sibling's copy of the type carries the same annotation text.
	var twins []*c05pair
	for _, p := range m.pairs {
		if p.feature != "plain" || p.ifacePkg != "ifc" || m.special[p.idx] != "" || p.file == 0 || p.tkind != "struct" || p.viaEmbed != "" || p.embeds != "" {
			continue
		}
		extra := (p.idx/3)%2 == 0 // every other twin interface asks for one more method
		fmt.Fprintf(&alt, "type %s interface {\n", p.ifaceName)
		for _, im := range p.imethods {
			fmt.Fprintf(&alt, "\t%s\n", im.sig("alt", map[string]string{"ifc": "ifc"}))
		}
		if extra {
			fmt.Fprintf(&alt, "\tTwinExtra%d()\n", p.idx)
		}
		alt.WriteString("}\n\n")
		tw := *p
		tw.tname = p.tname + "tw"
		tw.feature = "same-qualifier-other-package-in-sibling-file"
		tw.file = 3 - p.file
		tw.ifacePkg = "alt"
		tw.extra = ""
		tq := m.fileQual[tw.file]
		w := implFiles[tw.file]
		amp := ""
		if p.ptrContract {
			amp = "&"
		}
		fmt.Fprintf(w, "// %s is generated (feature %s).\n// @implements %s%s.%s\ntype %s struct{}\n\n", tw.tname, tw.feature, amp, p.qualifier, p.annName, tw.tname)
		for i, tm := range p.tmethods {
			star := ""
			if p.recvPtr[i] {
				star = "*"
			}
			b := "{}"
			if len(tm.res) > 0 {
				b = "{ panic(0) }"
			}
			fmt.Fprintf(w, "func (r %s%s) %s %s\n\n", star, tw.tname, tm.sig("impl", tq), b)
		}
		twins = append(twins, &tw)
	}
	m.pairs = append(m.pairs, twins...)
	m.files["ifc/ifc.go"] = ifc.String()
	m.files["v2/ifc/ifc.go"] = "package ifc\n\ntype Item struct{ X bool }\n"
	m.files["ab/ifc/ifc.go"] = "package ifc\n\n// blank-imported by f0.go before the regular import of m5/ifc (as net/http/pprof and runtime/pprof often are)\ntype Item struct{ Z int }\n"
	m.files["aa/ifc/ifc.go"] = "package ifc\n\n// a package with the same declared name, imported under another name by f0.go and sorted before m5/ifc\ntype Item struct{ Y string }\n"
	m.files["yy/alt.go"] = alt.String()
	for i, b := range implFiles {
		m.files[fmt.Sprintf("impl/f%d.go", i)] = b.String()
	}
	return m
}

func usesPkg(p *c05pair, pkg string) bool {
	var walk func(t *tx) bool
	walk = func(t *tx) bool {
		if t == nil {
			return false
		}
		if (t.kind == "named" || t.kind == "alias") && t.pkg == pkg {
			return true
		}
		if walk(t.elem) || walk(t.key) {
			return true
		}
		for _, x := range append(append([]*tx{}, t.params...), t.res...) {
			if walk(x) {
				return true
			}
		}
		return false
	}
	for _, ms := range [][]*c05method{p.imethods, p.tmethods} {
		for _, m := range ms {
			for _, x := range append(append([]*tx{}, m.params...), m.res...) {
				if walk(x) {
					return true
				}
			}
		}
	}
	return false
}

// ---------------------------------------------------------------- oracle

type c05expect struct {
	code     string // "" = no diagnostic
	missing  []string
	free     bool
	why      string
	lastElem bool // the qualifier matches only the last path element of an import whose declared name differs
}

var implAnnRe = regexp.MustCompile(`^//\s*@implements\s+(&)?(?:(\w+)\.)?(\w+)`)

// oracle: expectations per annotated type of package impl, computed with go/types.
func c05oracle(dir string) (map[string]c05expect, error) {
	cfg := &packages.Config{Mode: packages.LoadAllSyntax, Dir: dir}
	all, err := packages.Load(cfg, "./...")
	if err != nil {
		return nil, err
	}
	var pk *packages.Package
	for _, p := range all {
		if len(p.Errors) > 0 {
			return nil, fmt.Errorf("load errors in %s: %v", p.PkgPath, p.Errors)
		}
		if p.PkgPath == "m5/impl" {
			pk = p
		}
	}
	if pk == nil {
		return nil, fmt.Errorf("package m5/impl not loaded")
	}
	out := map[string]c05expect{}
	acc := map[string][]c05expect{}
	defer func() {
		// several annotation lines on one type: the codes of all lines together
		for name, list := range acc {
			var codes []string
			m := c05expect{}
			for _, e := range list {
				if e.code != "" {
					codes = append(codes, e.code)
				}
				m.missing = append(m.missing, e.missing...)
				m.free = m.free || e.free
				m.lastElem = m.lastElem || e.lastElem
				if e.why != "" {
					m.why += e.why + "; "
				}
			}
			sort.Strings(codes)
			sort.Strings(m.missing)
			m.code = strings.Join(codes, "+")
			out[name] = m
		}
	}()
	for _, f := range pk.Syntax {
		for _, d := range f.Decls {
			gd, ok := d.(*ast.GenDecl)
			if !ok || gd.Doc == nil {
				continue
			}
			for _, s := range gd.Specs {
				ts, ok := s.(*ast.TypeSpec)
				if !ok {
					continue
				}
				for _, c := range gd.Doc.List {
					mm := implAnnRe.FindStringSubmatch(c.Text)
					if mm == nil {
						continue
					}
					ptr, qual, name := mm[1] == "&", mm[2], mm[3]
					exp := c05expect{}
					// (1) qualifier bound by an import of this file?
					var target *types.Package
					if qual == "" {
						target = pk.Types
					} else {
						lastElemOnly := false
						regular := false
						for _, is := range f.Imports {
							path, _ := strconv.Unquote(is.Path.Value)
							ip := pk.Imports[path]
							if ip == nil {
								continue
							}
							if is.Name != nil && is.Name.Name != "_" && is.Name.Name != "." {
								if is.Name.Name == qual {
									target = ip.Types
								}
								continue
							}
							if ip.Types.Name() == qual {
								// a regular import binds the name; a blank or dot import only makes the package
								// available to annotations (documented) when no regular import binds it
								if is.Name == nil {
									target, regular = ip.Types, true
								} else if !regular {
									target = ip.Types
								}
							} else if path[strings.LastIndex(path, "/")+1:] == qual {
								lastElemOnly = true
							}
						}
						if target == nil {
							if lastElemOnly {
								exp.code, exp.why = "IMPL01", "qualifier matches only the last path element of an import whose declared name differs: not bound"
								exp.lastElem = true
							} else {
								exp.code, exp.why = "IMPL01", "qualifier not bound by any import of the file"
							}
							acc[ts.Name.Name] = append(acc[ts.Name.Name], exp)
							continue
						}
					}
					// (2) interface of that name?
					obj := target.Scope().Lookup(name)
					tn, _ := obj.(*types.TypeName)
					var iface *types.Interface
					if tn != nil {
						iface, _ = tn.Type().Underlying().(*types.Interface)
					}
					if iface == nil {
						exp.code, exp.why = "IMPL02", "no interface of that name in the package"
						acc[ts.Name.Name] = append(acc[ts.Name.Name], exp)
						continue
					}
					// (3) method sets
					tobj := pk.Types.Scope().Lookup(ts.Name.Name)
					var V types.Type = tobj.Type()
					if ptr {
						V = types.NewPointer(V)
					}
					ms := types.NewMethodSet(V)
					for i := 0; i < iface.NumMethods(); i++ {
						im := iface.Method(i)
						sel := ms.Lookup(im.Pkg(), im.Name())
						if sel == nil || !types.Identical(sel.Type(), im.Type()) {
							exp.missing = append(exp.missing, im.Name())
						}
					}
					sort.Strings(exp.missing)
					if len(exp.missing) > 0 {
						exp.code = "IMPL03"
					}
					// cross-check with the type checker's own verdict
					if types.Implements(V, iface) != (len(exp.missing) == 0) {
						return nil, fmt.Errorf("oracle inconsistency on %s: Implements=%v missing=%v", ts.Name.Name, types.Implements(V, iface), exp.missing)
					}
					acc[ts.Name.Name] = append(acc[ts.Name.Name], exp)
				}
			}
		}
	}
	return out, nil
}

var missRe = regexp.MustCompile(`(?m)^  (\w+)\(`)
var typeNameRe = regexp.MustCompile(`type "(\w+)"`)

func checkC05(replay string) {
	r := base.NewRun("C05")
	r.Rule = "generated (type, interface) pairs over a signature grammar (basic incl. byte/uint8, rune/int32, any/interface{}; named local/imported; pointers of depth 0-3; slices, arrays, maps, funcs, chans with direction; variadics; aliases; value/pointer receivers; methods promoted through embedded E, *E, embedded interface; interface embedding; T itself an interface or non-struct; interface in same package / imported / imported under alias / from a package whose name differs from its directory; & or not; unimported, missing and non-interface targets), each pair an exact copy or a single-edit mutation; the real binary's IMPL01/02/03 (+ listed methods) must equal the verdict of go/types on the same module; distinct = distinct (feature, contract kind, expected code) classes judged"
	r.Assume = []string{"go/types (method sets, types.Identical) is the reference for 'Go's own type checker'", "generic interfaces / types are outside the fragment"}
	nMod := r.Pick(160, 1600)
	perMod := 16
	var mu sync.Mutex
	classes := map[string]int{}
	base.Par(nMod, 0, func(mi int) {
		rng := base.NewRand(r.Seed, fmt.Sprintf("c05-%d", mi))
		m := genModule(rng, perMod, mi*featureStride())
		root := ggrun.Scratch()
		defer os.RemoveAll(root)
		ggrun.WriteTree(root, m.files)
		fs := map[string]string{}
		for k, v := range m.files {
			fs["module/"+k] = v
		}
		exp, err := c05oracle(root)
		if err != nil {
			keep := "/var/tmp/vfw-noncompiling-c05"
			os.RemoveAll(keep)
			os.Rename(root, keep)
			base.Harness("C05 module %d: %v (kept in %s)", mi, err, keep)
		}
		res := ggrun.Run(ggrun.Opts{Dir: root, Args: []string{"./..."}})
		if bad, why := res.Crashed(false); bad {
			r.Violate("crash/"+crashKey(res.Stderr), why+"\n"+head(res.Stderr, 3000), fs)
			return
		}
		// observed per type
		type obs struct {
			codes   []string
			missing []string
		}
		got := map[string]*obs{}
		for _, d := range res.Diags {
			if !strings.HasPrefix(d.Code, "IMPL") {
				r.Violate("IMPL/foreign-diagnostic", fmt.Sprintf("unexpected %s at %s:%d", d.Code, d.File, d.Line), fs)
				continue
			}
			tm := typeNameRe.FindStringSubmatch(d.Msg)
			if tm == nil {
				continue
			}
			o := got[tm[1]]
			if o == nil {
				o = &obs{}
				got[tm[1]] = o
			}
			o.codes = append(o.codes, d.Code)
			if d.Code == "IMPL03" {
				// the header of the message up to the source excerpt
				msg := d.Msg
				if i := strings.Index(msg, "\n   |"); i >= 0 {
					msg = msg[:i]
				}
				if i := strings.Index(msg, "\n  |"); i >= 0 {
					msg = msg[:i]
				}
				for _, x := range missRe.FindAllStringSubmatch(msg, -1) {
					o.missing = append(o.missing, x[1])
				}
			}
		}
		for _, p := range m.pairs {
			e, ok := exp[p.tname]
			if !ok {
				continue
			}
			feat := p.feature
			if sp := m.special[p.idx]; sp != "" {
				feat = sp
			}
			if p.ifacePkg == "alt" && p.file == 0 && m.special[p.idx] == "" && feat == "plain" {
				feat = "pkgname-differs-from-dir"
			}
			if p.extra != "" {
				feat += "+second-line-" + p.extra
			}
			contract := "value"
			if p.ptrContract {
				contract = "pointer"
			}
			if e.free {
				mu.Lock()
				classes[feat+"/"+contract+"/FREE"]++
				mu.Unlock()
				continue
			}
			r.Eval(1)
			o := got[p.tname]
			gotCode := ""
			var gotMissing []string
			if o != nil {
				sort.Strings(o.codes)
				gotCode = strings.Join(o.codes, "+")
				gotMissing = o.missing
				sort.Strings(gotMissing)
			}
			cls := feat + "/" + contract + "/" + map[string]string{"": "ok"}[e.code] + e.code
			mu.Lock()
			classes[cls]++
			mu.Unlock()
			if gotCode != e.code && e.lastElem && !strings.Contains(gotCode, "IMPL01") {
				// known finding: util.ImportMap.Find priorities 3/4 (pinned by TestImportMapFindByPackageName)
				r.Violate("IMPL/last-path-element-qualifier-accepted", fmt.Sprintf("module %d type %s: annotation qualifier %q is only the last path element of an import whose declared package name differs; no import of the file binds it, IMPL01 expected, tool reported %q", mi, p.tname, p.qualifier, gotCode), fs)
				continue
			}
			if gotCode != e.code {
				dir := "spurious-" + gotCode
				if gotCode == "" {
					dir = "missed-" + e.code
				} else if e.code != "" {
					dir = "wrong-code-" + gotCode + "-for-" + e.code
				}
				r.Violate("IMPL/"+dir+"/"+feat, fmt.Sprintf("module %d type %s (feature %s, %s contract, interface in %s, annotation qualifier %q): go/types expects %q %v (%s), tool reported %q %v", mi, p.tname, p.feature, contract, p.ifacePkg, p.qualifier, e.code, e.missing, e.why, gotCode, gotMissing), fs)
				continue
			}
			if strings.Contains(e.code, "IMPL03") && strings.Join(gotMissing, ",") != strings.Join(e.missing, ",") {
				r.Violate("IMPL/wrong-method-list/"+feat, fmt.Sprintf("module %d type %s (feature %s, %s contract): go/types misses %v, tool lists %v", mi, p.tname, p.feature, contract, e.missing, gotMissing), fs)
			}
		}
		if mi < 3 {
			p := m.pairs[mi]
			r.Sample(map[string]any{"type": p.tname, "feature": p.feature, "interface_pkg": p.ifacePkg, "expected": fmt.Sprintf("%+v", exp[p.tname])})
		}
	})
	for k := range classes {
		r.Distinct(k)
	}
	r.Obs("classes", classes)
	r.Obs("modules", nMod)
	r.Finish()
}
