package main

// C06 — annotations cross package boundaries intact, whatever the driver or run set.

import (
	"bytes"
	"encoding/json"
	"fmt"
	"os"
	"os/exec"
	"path/filepath"
	"sort"
	"strconv"
	"strings"
	"sync"
	"syscall"
	"time"

	"verif/harness/internal/base"
	"verif/harness/internal/gen"
	"verif/harness/internal/ggrun"
)

func init() { register("C06", checkC06) }

// runVet runs `go vet -json -vettool=<bin>` (unitchecker: one process per package, facts on disk).
func runVet(dir string, bin string, flags []string, patterns ...string) (*ggrun.Result, error) {
	args := append([]string{"vet", "-json", "-vettool=" + bin}, flags...)
	args = append(args, patterns...)
	cmd := exec.Command("go", args...)
	cmd.Dir = dir
	var env []string
	for _, kv := range os.Environ() {
		if !strings.HasPrefix(kv, "GOGREEMENT_") {
			env = append(env, kv)
		}
	}
	cmd.Env = env
	// own process group + watchdog: an analyzer that never returns must not hang the check. The verdict is taken from
	// the CPU time the group has burnt, not from the wall clock (a loaded machine only yields "inconclusive").
	cmd.SysProcAttr = &syscall.SysProcAttr{Setpgid: true}
	var buf bytes.Buffer
	cmd.Stdout, cmd.Stderr = &buf, &buf
	if err := cmd.Start(); err != nil {
		return &ggrun.Result{}, err
	}
	done := make(chan error, 1)
	go func() { done <- cmd.Wait() }()
	var err error
	deadline := time.After(vetWatchdog)
	tick := time.NewTicker(5 * time.Second)
	defer tick.Stop()
	hung := ""
wait:
	for {
		select {
		case err = <-done:
			break wait
		case <-tick.C:
			if cpu := groupCPU(cmd.Process.Pid); cpu > vetHangCPU {
				hung = fmt.Sprintf("hang: the go vet process group used %v of CPU without terminating", cpu.Round(time.Second))
			}
		case <-deadline:
			hung = fmt.Sprintf("watchdog: go vet still running after %v (CPU %v)", vetWatchdog, groupCPU(cmd.Process.Pid).Round(time.Second))
		}
		if hung != "" {
			syscall.Kill(-cmd.Process.Pid, syscall.SIGKILL)
			<-done
			break wait
		}
	}
	out := buf.Bytes()
	res := &ggrun.Result{Stdout: string(out)}
	if cmd.ProcessState != nil {
		res.Exit = cmd.ProcessState.ExitCode()
	}
	if hung != "" {
		res.TimedOut = true
		res.Stdout = hung + "\n" + res.Stdout
		res.Stderr = res.Stdout
		return res, fmt.Errorf("%s", hung)
	}
	res.Diags, res.Errors = ggrun.ParseJSON(string(out), dir)
	res.Stderr = string(out)
	if err != nil && res.Exit != 0 {
		return res, fmt.Errorf("go vet exit %d", res.Exit)
	}
	return res, nil
}

// a vet run over a generated module or a corpus copy needs seconds to a few minutes of CPU in total
const vetHangCPU = 8 * time.Minute // summed over the LIVE processes of the group: finished workers do not count
const vetWatchdog = 40 * time.Minute

// groupCPU sums user+system time of the live processes of a process group (from /proc).
func groupCPU(pgid int) time.Duration {
	ents, _ := os.ReadDir("/proc")
	var ticks int64
	for _, e := range ents {
		if _, err := strconv.Atoi(e.Name()); err != nil {
			continue
		}
		b, err := os.ReadFile("/proc/" + e.Name() + "/stat")
		if err != nil {
			continue
		}
		st := string(b)
		i := strings.LastIndexByte(st, ')')
		if i < 0 {
			continue
		}
		f := strings.Fields(st[i+1:])
		if len(f) < 13 {
			continue
		}
		if pg, _ := strconv.Atoi(f[2]); pg != pgid {
			continue
		}
		u, _ := strconv.ParseInt(f[11], 10, 64)
		sy, _ := strconv.ParseInt(f[12], 10, 64)
		ticks += u + sy
	}
	return time.Duration(ticks) * time.Second / 100
}

type driveResult struct {
	Sum   driveSummary
	Diags []ggrun.Diag
	Raw   string
	Err   string
}

// runDrive runs the in-process driver child.
func runDrive(bin string, dir string, extra []string, patterns ...string) *driveResult {
	out := filepath.Join(dir, fmt.Sprintf(".events-%d.jsonl", os.Getpid()))
	args := append([]string{"drive", "-dir", dir, "-out", out}, extra...)
	args = append(args, patterns...)
	cmd := exec.Command(bin, args...)
	var env []string
	for _, kv := range os.Environ() {
		if !strings.HasPrefix(kv, "GOGREEMENT_") && !strings.HasPrefix(kv, "GORACE=") {
			env = append(env, kv)
		}
	}
	cmd.Env = env
	if strings.HasSuffix(bin, "-race") {
		cmd.Env = append(cmd.Env, "GORACE=halt_on_error=0 log_path="+filepath.Join(dir, ".race"))
	}
	b, err := cmd.CombinedOutput()
	dr := &driveResult{Raw: string(b)}
	if err != nil {
		dr.Err = err.Error()
	}
	for _, l := range strings.Split(string(b), "\n") {
		if strings.HasPrefix(l, "DRIVE-SUMMARY ") {
			json.Unmarshal([]byte(strings.TrimPrefix(l, "DRIVE-SUMMARY ")), &dr.Sum)
		}
	}
	if ev, err := os.ReadFile(out); err == nil {
		for _, l := range strings.Split(string(ev), "\n") {
			if l == "" {
				continue
			}
			var e driveEvent
			if json.Unmarshal([]byte(l), &e) == nil && e.Ev == "rootdiag" {
				d := ggrun.Diag{PkgID: e.Pkg, Analyzer: e.An, File: e.File, Line: e.Line, Col: e.Col, Msg: e.Msg}
				if rel, err := filepath.Rel(dir, d.File); err == nil && !strings.HasPrefix(rel, "..") {
					d.File = rel
				}
				if m := strings.Index(d.Msg, "["); m >= 0 {
					if n := strings.Index(d.Msg[m:], "]"); n > 0 {
						d.Code = d.Msg[m+1 : m+n]
					}
				}
				dr.Diags = append(dr.Diags, d)
			}
		}
		os.Remove(out)
	}
	return dr
}

// setIn: the normalised set restricted to files below the given package directories.
func setIn(ds []ggrun.Diag, dirs map[string]bool) map[string]bool {
	out := map[string]bool{}
	for _, d := range ds {
		dir := d.File
		if i := strings.LastIndex(dir, "/"); i >= 0 {
			dir = dir[:i]
		}
		if dirs == nil || dirs[dir] {
			out[fmt.Sprintf("%s:%d:%d|%s|%s", d.File, d.Line, d.Col, d.Analyzer, d.Msg)] = true
		}
	}
	return out
}

func checkC06(replay string) {
	r := base.NewRun("C06")
	r.Rule = "generated import DAGs (declaring packages incl. byte-identical twin declarations, using packages, a transit package, an unrelated package; rich annotation values) are analysed by: standalone ./..., standalone naming only leaf packages, standalone with random package subsets, go vet -vettool (facts on disk, one process per package), the in-process driver with and without the fact sanity check; per analysed package all normalised diagnostic sets must be equal; every exported fact must survive a gob round trip and equal the annotation reader's result; toggling annotations of a package P does not directly import must leave P's set unchanged; every line of every package is also judged by the reference model (annotations on exported and unexported types, methods, @mutable fields, constructor lists, allow-lists as seen from importers); distinct = (program, driver/run-set variant) comparisons with a non-empty set"
	r.Assume = []string{"go vet / unitchecker and x/tools checker as shipped with the pinned toolchain and x/tools v0.38.0", "golangci-lint / gopls drivers not installed: out of reach"}
	nProg := r.Pick(10, 120)
	vcheckBin := filepath.Join(base.BuildDir, "vcheck")
	if r.Thorough() {
		if _, err := os.Stat(filepath.Join(base.BuildDir, "vcheck-race")); err == nil {
			vcheckBin = filepath.Join(base.BuildDir, "vcheck-race")
		}
	}
	var mu sync.Mutex
	facts, factProblems, variants := 0, 0, map[string]int{}
	base.Par(nProg, 8, func(pi int) {
		spec := gen.Spec{Seed: r.Seed + 6000, Index: pi, Hostile: pi%2 == 0, Tests: false, Excluded: false, Impl: pi%3 == 0, PerPair: 6, Twin: pi%2 == 1, Transit: true, Unrelated: true, SameNames: pi%4 == 2}
		spec.Tests = pi%3 != 1 // pi%3 == 2: test files present while scan-tests stays off (vet analyses only the test variant)
		bt := gen.Build(spec)
		// @ignore comments in many packages and a non-default configuration for some programs: the drivers must agree on those too
		irng := base.NewRand(r.Seed, fmt.Sprintf("c06-ign-%d", pi))
		for _, st := range gen.Statements(bt.P) {
			if len(st.N.Pre) > 0 && (st.IsStatement() || st.Depth == 0) && irng.Chance(1, 30) {
				st.N.Lead = append(st.N.Lead, &gen.Ignore{Codes: base.Pick(irng, []string{"IMM", "CTOR01", "TONL, PKGO01", "ALL", "ZZ99", "pkgo03"})})
			}
		}
		cfg := gen.DefaultCfg()
		var cfgFlags, driveFlags []string
		if pi%3 == 0 {
			cfg.ScanTests = true
			cfgFlags = append(cfgFlags, "-config.scan-tests=true")
			driveFlags = append(driveFlags, "-scan-tests=true")
		}
		if pi%5 == 1 {
			cfg.ExcludeChecks = []string{"CTOR02", "TONL"}
			cfgFlags = append(cfgFlags, "-config.exclude-checks=ctor02,TONL")
			driveFlags = append(driveFlags, "-exclude-checks=ctor02,TONL")
		}
		files := gen.Render(bt.P, gen.RenderOpts{})
		root := ggrun.Scratch()
		defer os.RemoveAll(root)
		ggrun.WriteTree(root, files)
		fs := map[string]string{"config.txt": fmt.Sprintf("%+v", cfg)}
		for k, v := range files {
			fs["module/"+k] = v
		}
		ref := ggrun.Run(ggrun.Opts{Dir: root, Args: append(append([]string{}, cfgFlags...), "./...")})
		if bad, why := ref.Crashed(false); bad {
			if ok, out := ggrun.CompileCheck(root); !ok {
				base.Harness("generated program does not compile: %s", out)
			}
			r.Violate("crash/"+crashKey(ref.Stderr), why+"\n"+head(ref.Stderr, 2000), fs)
			return
		}
		all := setIn(ref.Diags, nil)
		// every kind of annotation must take effect in importers exactly as in the declaring package: the reference model
		// judges each line of the importing packages (exported and unexported types, methods, fields, constructor lists, allow-lists)
		exp := gen.Evaluate(bt.P, cfg, root)
		mm, judged, _ := gen.Compare(bt.P, exp, ggrun.ToObs(ref.Diags))
		r.Eval(judged)
		seenKey := map[string]bool{}
		for _, m := range mm {
			if !seenKey[m.Key] {
				seenKey[m.Key] = true
				r.Violate("importer/"+m.Key, fmt.Sprintf("program %d: %s", pi, m.Detail), fs)
			}
		}
		compare := func(name string, got map[string]bool, dirs map[string]bool) {
			want := setIn(ref.Diags, dirs)
			oa, ob := diffSets(want, got)
			r.Eval(1)
			mu.Lock()
			variants[name]++
			mu.Unlock()
			if len(want) > 0 {
				r.Distinct(fmt.Sprintf("%d/%s", pi, name))
			}
			if len(oa)+len(ob) > 0 {
				r.Violate("driver/"+name, fmt.Sprintf("program %d: diagnostics differ between 'gogreement ./...' and %s. only in ./...: %v ; only in %s: %v", pi, name, headList(oa, 3), name, headList(ob, 3)), fs)
			}
		}
		_ = all
		// leaf only / subsets
		var dirsU []string
		for _, u := range bt.UPkgs {
			dirsU = append(dirsU, u.Dir)
		}
		leafDirs := map[string]bool{}
		var leafPat []string
		for _, d := range dirsU {
			leafDirs[d] = true
			leafPat = append(leafPat, "./"+d)
		}
		leaf := ggrun.Run(ggrun.Opts{Dir: root, Args: append(append([]string{}, cfgFlags...), leafPat...)})
		if bad, why := leaf.Crashed(false); bad {
			r.Violate("crash/leaf-only", why, fs)
		} else {
			compare("standalone-leaf-packages-only", setIn(leaf.Diags, nil), leafDirs)
		}
		rng := base.NewRand(r.Seed, fmt.Sprintf("c06-%d", pi))
		for k := 0; k < 2; k++ {
			sub := map[string]bool{}
			var pat []string
			for _, pk := range bt.P.Pkgs {
				if rng.Bool() {
					sub[pk.Dir] = true
					pat = append(pat, "./"+pk.Dir)
				}
			}
			if len(pat) == 0 {
				continue
			}
			base.Shuffle(rng, pat)
			res := ggrun.Run(ggrun.Opts{Dir: root, Args: append(append([]string{}, cfgFlags...), pat...)})
			if bad, why := res.Crashed(false); bad {
				r.Violate("crash/subset", why, fs)
				continue
			}
			compare("standalone-random-subset", setIn(res.Diags, nil), sub)
		}
		// vet driver
		vet, err := runVet(root, ggrun.Bin, cfgFlags, "./...")
		if vet.TimedOut && !strings.HasPrefix(vet.Stdout, "hang:") {
			r.Inconclusive(fmt.Sprintf("program %d: %s", pi, head(vet.Stdout, 200)))
		} else if err != nil || len(vet.Errors) > 0 {
			r.Violate("driver/vet-failed", fmt.Sprintf("program %d: go vet -vettool failed: %v %v\n%s", pi, err, vet.Errors, head(vet.Stdout, 2000)), fs)
		} else {
			compare("go-vet-vettool", setIn(vet.Diags, nil), nil)
		}
		// in-process driver, with and without fact sanity check
		tf := fmt.Sprintf("-tests=%v", spec.Tests)
		for _, extra := range [][]string{{tf}, {tf, "-sanity"}, {tf, "-sequential"}} {
			dr := runDrive(vcheckBin, root, append(append([]string{}, extra...), driveFlags...), "./...")
			name := "in-process" + strings.Join(extra[1:], "")
			if dr.Err != "" || len(dr.Sum.ActionErrors) > 0 || len(dr.Sum.LoadErrors) > 0 {
				r.Violate("driver/"+name+"-failed", fmt.Sprintf("program %d: %s %v %v\n%s", pi, dr.Err, dr.Sum.ActionErrors, dr.Sum.LoadErrors, head(dr.Raw, 2500)), fs)
				continue
			}
			compare(name, setIn(dr.Diags, nil), nil)
			mu.Lock()
			facts += dr.Sum.Facts
			factProblems += len(dr.Sum.FactProblems)
			mu.Unlock()
			for _, fp := range dr.Sum.FactProblems {
				r.Violate("facts/round-trip", fmt.Sprintf("program %d: %s", pi, fp), fs)
				break
			}
			for _, mp := range dr.Sum.MonitorProblems {
				r.Violate("facts/monitor", fmt.Sprintf("program %d: %s", pi, mp), fs)
				break
			}
		}
		// independence: toggle annotations of d0's first type; packages that do not directly import d0 must be unaffected
		bt2 := gen.Build(spec)
		irng2 := base.NewRand(r.Seed, fmt.Sprintf("c06-ign-%d", pi))
		for _, st := range gen.Statements(bt2.P) {
			if len(st.N.Pre) > 0 && (st.IsStatement() || st.Depth == 0) && irng2.Chance(1, 30) {
				st.N.Lead = append(st.N.Lead, &gen.Ignore{Codes: base.Pick(irng2, []string{"IMM", "CTOR01", "TONL, PKGO01", "ALL", "ZZ99", "pkgo03"})})
			}
		}
		gen.FlipAnnotations(bt2)
		files2 := gen.Render(bt2.P, gen.RenderOpts{})
		root2 := ggrun.Scratch()
		defer os.RemoveAll(root2)
		ggrun.WriteTree(root2, files2)
		res2 := ggrun.Run(ggrun.Opts{Dir: root2, Args: append(append([]string{}, cfgFlags...), "./...")})
		if bad, why := res2.Crashed(false); bad {
			if ok, out := ggrun.CompileCheck(root2); !ok {
				base.Harness("flipped program does not compile: %s", out)
			}
			r.Violate("crash/flipped", why, fs)
			return
		}
		indep := map[string]bool{}
		for _, pk := range bt.P.Pkgs {
			if pk.Path != "m/d0" && !pk.Imports["m/d0"] {
				indep[pk.Dir] = true
			}
		}
		if len(indep) > 0 {
			a, b2 := setIn(ref.Diags, indep), setIn(res2.Diags, indep)
			// line numbers may shift inside d0 only; other packages' files are byte-identical
			oa, ob := diffSets(a, b2)
			r.Eval(1)
			if len(oa)+len(ob) > 0 {
				fs2 := map[string]string{}
				for k, v := range files2 {
					fs2["flipped/"+k] = v
				}
				for k, v := range fs {
					fs2[k] = v
				}
				r.Violate("independence/indirect-or-unrelated-package-affected", fmt.Sprintf("program %d: toggling annotations of m/d0.%s changed diagnostics of packages that do not import m/d0 (%v): only before: %v ; only after: %v", pi, bt.Types[0].Name, keysOf(indep), headList(oa, 3), headList(ob, 3)), fs2)
			}
			if len(a) > 0 {
				r.Distinct(fmt.Sprintf("%d/independence", pi))
			}
			mu.Lock()
			variants["independence"]++
			mu.Unlock()
		}
		if pi < 2 {
			r.Sample(map[string]any{"program": pi, "packages": len(bt.P.Pkgs), "diagnostics_reference": len(all), "diagnostics_vet": len(setIn(vet.Diags, nil)), "independent_packages": keysOf(indep)})
		}
	})
	r.Obs("facts_round_tripped", facts)
	r.Obs("fact_problems", factProblems)
	r.Obs("comparisons_per_variant", variants)
	if facts == 0 && r.NViol() == 0 {
		base.Harness("C06 observed no exported fact")
	}
	c06VetCacheHistory(r)
	r.Finish()
}

// c06VetCacheHistory: go vet keeps the facts of dependency-only packages in the build cache. The cache key covers the
// tool and its flags, not the GOGREEMENT_* environment, so a configuration given through the environment may survive
// in cached facts into a later run with another configuration. Both orders are replayed against a private, initially
// empty GOCACHE; the module imports nothing, so nothing else has to be built.
func c06VetCacheHistory(r *base.Run) {
	files := map[string]string{
		"go.mod":       "module vc\n\ngo 1.25\n",
		"d/plain.go":   "package d\n\n// Keep is unannotated.\ntype Keep struct{ N int }\n",
		"d/annot_x.go": "package d\n\n// T is annotated.\n// @immutable\n// @constructor NewT\ntype T struct{ F int }\n\n// NewT is the constructor.\nfunc NewT() *T { return &T{} }\n",
		"app/app.go":   "package app\n\nimport \"vc/d\"\n\nfunc f() {\n\tx := d.NewT()\n\tx.F = 1\n\tx.F += 2\n\tx.F++\n\t_ = d.T{}\n\t_ = d.Keep{}\n}\n",
	}
	root := ggrun.Scratch()
	defer os.RemoveAll(root)
	ggrun.WriteTree(root, files)
	fs := map[string]string{}
	for k, v := range files {
		fs["module/"+k] = v
	}
	vet := func(cache string, env []string) (map[string]bool, string) {
		cmd := exec.Command("go", "vet", "-json", "-vettool="+ggrun.Bin, "./app")
		cmd.Dir = root
		for _, kv := range os.Environ() {
			if !strings.HasPrefix(kv, "GOGREEMENT_") && !strings.HasPrefix(kv, "GOCACHE=") {
				cmd.Env = append(cmd.Env, kv)
			}
		}
		cmd.Env = append(append(cmd.Env, "GOCACHE="+cache), env...)
		out, _ := cmd.CombinedOutput()
		ds, _ := ggrun.ParseJSON(string(out), root)
		return setIn(ds, nil), string(out)
	}
	alone := func(env []string) map[string]bool {
		res := ggrun.Run(ggrun.Opts{Dir: root, Args: []string{"./app"}, Env: env})
		return setIn(res.Diags, nil)
	}
	envX := []string{"GOGREEMENT_EXCLUDE_PATHS=annot_x"}
	wantDefault, wantX := alone(nil), alone(envX)
	if len(wantDefault) < 4 || len(wantX) != 0 {
		r.Inconclusive(fmt.Sprintf("vet-cache history: the probe module gives %d / %d diagnostics standalone (expected >=4 / 0)", len(wantDefault), len(wantX)))
		return
	}
	for oi, order := range [][2][]string{{envX, nil}, {nil, envX}} {
		cache := filepath.Join(root, fmt.Sprintf(".gocache%d", oi))
		os.MkdirAll(cache, 0o755)
		first, _ := vet(cache, order[0])
		second, out2 := vet(cache, order[1])
		r.Eval(2)
		wantFirst, wantSecond := wantX, wantDefault
		if oi == 1 {
			wantFirst, wantSecond = wantDefault, wantX
		}
		r.Distinct(fmt.Sprintf("vet-cache-history/order%d", oi))
		if !sameSet(first, wantFirst) {
			r.Violate("vet-cache/first-run-differs-from-standalone", fmt.Sprintf("order %d: first go vet run (env %v) on an empty cache reports %d diagnostics, standalone %d", oi, order[0], len(first), len(wantFirst)), fs)
			continue
		}
		if !sameSet(second, wantSecond) {
			r.Violate("vet-cache/env-config-frozen-in-cached-facts", fmt.Sprintf("order %d: go vet ./app with env %v after a run with env %v on the same GOCACHE reports %d diagnostics, the standalone driver under the same configuration %d: the facts of dependency vc/d were cached under the earlier GOGREEMENT_* environment\n%s", oi, order[1], order[0], len(second), len(wantSecond), head(out2, 1500)), fs)
		}
	}
}

func sameSet(a, b map[string]bool) bool {
	if len(a) != len(b) {
		return false
	}
	for k := range a {
		if !b[k] {
			return false
		}
	}
	return true
}

func keysOf(m map[string]bool) []string {
	var ks []string
	for k := range m {
		ks = append(ks, k)
	}
	sort.Strings(ks)
	return ks
}
