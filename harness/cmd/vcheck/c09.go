package main

// C09 — code without annotations is never reported.
// (a) real-world corpora (Go standard library, repository dependencies) after a precondition scan;
// (b) generated programs whose every annotation is replaced by a near miss while the would-be violations stay.

import (
	"bytes"
	"encoding/json"
	"fmt"
	"go/ast"
	"go/parser"
	"go/token"
	"os"
	"os/exec"
	"path/filepath"
	"sort"
	"strings"
	"sync"

	"verif/harness/internal/base"
	"verif/harness/internal/gen"
	"verif/harness/internal/ggrun"
)

func init() { register("C09", checkC09) }

var annKeywords = []string{"@implements", "@constructor", "@immutable", "@testonly", "@mutable", "@packageonly", "@ignore"}

// startsWithAnnotation: reference precondition — a doc comment line that, after // and blanks, starts with a lowercase keyword.
func startsWithAnnotation(text string) bool {
	if !strings.HasPrefix(text, "//") {
		return false
	}
	s := strings.TrimLeft(text[2:], " \t")
	for _, k := range annKeywords {
		if strings.HasPrefix(s, k) {
			return true
		}
	}
	return false
}

type listedPkg struct {
	ImportPath   string
	Dir          string
	GoFiles      []string
	TestGoFiles  []string
	XTestGoFiles []string
	CgoFiles     []string
	Standard     bool
	Incomplete   bool
	DepsErrors   []struct{ Err string }
	Error        *struct{ Err string }
}

func goList(dir string, patterns ...string) ([]listedPkg, error) {
	cmd := exec.Command("go", append([]string{"list", "-e", "-json=ImportPath,Dir,GoFiles,TestGoFiles,XTestGoFiles,CgoFiles,Standard,Incomplete,DepsErrors,Error"}, patterns...)...)
	cmd.Dir = dir
	var out, errb bytes.Buffer
	cmd.Stdout, cmd.Stderr = &out, &errb
	if err := cmd.Run(); err != nil {
		return nil, fmt.Errorf("go list: %v: %s", err, errb.String())
	}
	var ps []listedPkg
	dec := json.NewDecoder(&out)
	for dec.More() {
		var p listedPkg
		if err := dec.Decode(&p); err != nil {
			return nil, err
		}
		ps = append(ps, p)
	}
	return ps, nil
}

// preconditionHolds: no doc comment of a top-level declaration (or, conservatively, of a field or any @ignore-looking comment) starts with a keyword.
func preconditionHolds(p listedPkg) (bool, string) {
	fset := token.NewFileSet()
	var files []string
	files = append(files, p.GoFiles...)
	files = append(files, p.TestGoFiles...)
	files = append(files, p.XTestGoFiles...)
	files = append(files, p.CgoFiles...)
	for _, fn := range files {
		f, err := parser.ParseFile(fset, filepath.Join(p.Dir, fn), nil, parser.ParseComments)
		if err != nil {
			return false, "parse error"
		}
		for _, cg := range f.Comments { // conservative: any comment anywhere
			for _, c := range cg.List {
				if startsWithAnnotation(c.Text) {
					return false, fmt.Sprintf("%s: %q", fn, c.Text)
				}
			}
		}
		_ = ast.Print
	}
	return true, ""
}

const corpusGoMod = `module corpus

go 1.25

require (
	github.com/cloudflare/ahocorasick v0.0.0-20240916140611-054963ec9396
	github.com/davecgh/go-spew v1.1.1
	github.com/pmezard/go-difflib v1.0.0
	github.com/stretchr/testify v1.11.1
	golang.org/x/mod v0.29.0
	golang.org/x/sync v0.17.0
	golang.org/x/tools v0.38.0
	gopkg.in/yaml.v3 v3.0.1
)
`

func makeCorpusModule() string {
	root := ggrun.Scratch()
	sum, _ := os.ReadFile(repoDir() + "/go.sum")
	ggrun.WriteTree(root, map[string]string{"go.mod": corpusGoMod, "go.sum": string(sum),
		"dummy.go": "package corpus\n\nimport (\n\t_ \"github.com/cloudflare/ahocorasick\"\n\t_ \"github.com/davecgh/go-spew/spew\"\n\t_ \"github.com/pmezard/go-difflib/difflib\"\n\t_ \"github.com/stretchr/testify/assert\"\n\t_ \"golang.org/x/mod/semver\"\n\t_ \"golang.org/x/sync/errgroup\"\n\t_ \"golang.org/x/tools/go/analysis\"\n\t_ \"gopkg.in/yaml.v3\"\n)\n"})
	return root
}

func checkC09(replay string) {
	r := base.NewRun("C09")
	r.Rule = "(a) packages of the Go standard library and of the repository's dependencies (module cache) that pass a precondition scan (no comment starting with a lowercase annotation keyword) are analysed by the real binary under default, scan-tests and empty exclude-paths configurations: diagnostic count must be 0; (b) generated multi-package programs in which every annotation is replaced by a near miss (12 shapes) while all would-be violations stay: count must be 0; distinct = packages analysed + (program, near-miss rendering) pairs"
	r.Assume = []string{"precondition scanner of the harness (go/parser)", "corpus packages compile with the repository's toolchain"}
	root := makeCorpusModule()
	defer os.RemoveAll(root)
	// corpus selection
	std, err := goList(root, "std")
	if err != nil {
		base.Harness("%v", err)
	}
	var stdNames []string
	for _, p := range std {
		if p.Error == nil && len(p.GoFiles)+len(p.CgoFiles) > 0 && !strings.Contains(p.ImportPath, "/internal/") && !strings.HasPrefix(p.ImportPath, "vendor/") && !strings.HasPrefix(p.ImportPath, "internal/") {
			stdNames = append(stdNames, p.ImportPath)
		}
	}
	sort.Strings(stdNames)
	rng := base.NewRand(r.Seed, "c09")
	depPatterns := []string{"gopkg.in/yaml.v3", "github.com/stretchr/testify/assert", "github.com/stretchr/testify/require", "github.com/davecgh/go-spew/spew", "github.com/pmezard/go-difflib/difflib", "github.com/cloudflare/ahocorasick", "golang.org/x/mod/semver", "golang.org/x/sync/errgroup"}
	var patterns []string
	if r.Thorough() {
		patterns = append(append([]string{}, stdNames...), depPatterns...)
		patterns = append(patterns, "golang.org/x/tools/go/...", "golang.org/x/tools/internal/...", "github.com/stretchr/testify/...", "golang.org/x/mod/...")
	} else {
		base.Shuffle(rng, stdNames)
		patterns = append(append([]string{}, stdNames[:40]...), depPatterns...)
		patterns = append(patterns, "golang.org/x/tools/go/ast/...", "golang.org/x/tools/go/analysis/passes/printf")
	}
	listed, err := goList(root, patterns...)
	if err != nil {
		base.Harness("%v", err)
	}
	var okPkgs []string
	dropped := map[string]string{}
	for _, p := range listed {
		if p.Error != nil || p.Incomplete || len(p.DepsErrors) > 0 {
			dropped[p.ImportPath] = "does not load offline (missing dependency in the module cache)"
			continue
		}
		if ok, why := preconditionHolds(p); !ok {
			dropped[p.ImportPath] = why
			continue
		}
		okPkgs = append(okPkgs, p.ImportPath)
	}
	sort.Strings(okPkgs)
	cfgs := [][]string{{}, {"-config.scan-tests=true"}, {"-config.exclude-paths=", "-config.scan-tests=true"}}
	if !r.Thorough() {
		cfgs = cfgs[:2]
	}
	// run in chunks so that a diagnostic can be attributed
	chunk := 25
	type job struct {
		pk  []string
		cfg []string
	}
	var jobs []job
	var stdOK, depOK []string
	for _, p := range okPkgs {
		if strings.Contains(p, ".") {
			depOK = append(depOK, p)
		} else {
			stdOK = append(stdOK, p)
		}
	}
	for _, group := range [][]string{stdOK, depOK} {
		for i := 0; i < len(group); i += chunk {
			j := i + chunk
			if j > len(group) {
				j = len(group)
			}
			for _, c := range cfgs {
				jobs = append(jobs, job{group[i:j], c})
			}
		}
	}
	var mu sync.Mutex
	analysed := 0
	base.Par(len(jobs), 8, func(i int) {
		j := jobs[i]
		args := append([]string{}, j.cfg...)
		for _, p := range j.pk {
			if strings.Contains(p, ".") { // module-cache packages: their test dependencies (gopkg.in/check.v1 ...) are not in the cache
				args = append(args, "-test=false")
				break
			}
		}
		res := ggrun.Run(ggrun.Opts{Dir: root, Args: append(args, j.pk...)})
		r.Eval(len(j.pk))
		if bad, why := res.Crashed(false); bad {
			r.Violate("corpus/abnormal-exit", fmt.Sprintf("cfg %v packages %v: %s\n%s", j.cfg, j.pk, why, head(res.Stderr, 2000)), nil)
			return
		}
		for _, d := range res.Diags {
			r.Violate("corpus/diagnostic-on-unannotated-code", fmt.Sprintf("cfg %v: %s reported at %s:%d in package %s\n%s", j.cfg, d.Code, d.File, d.Line, d.PkgID, head(d.Msg, 600)), nil)
			break
		}
		mu.Lock()
		analysed += len(j.pk)
		mu.Unlock()
	})
	for _, p := range okPkgs {
		r.Distinct("pkg/" + p)
	}
	r.Obs("corpus_packages_analysed", len(okPkgs))
	r.Obs("corpus_packages_dropped_by_precondition", dropped)
	r.Obs("corpus_configurations", len(cfgs))
	// (b) near-miss programs
	nProg := r.Pick(40, 800)
	diagFree := 0
	base.Par(nProg, 0, func(pi int) {
		spec := gen.Spec{Seed: r.Seed + 9000, Index: pi, Hostile: pi%2 == 0, Tests: pi%5 == 0, Excluded: pi%4 == 1, Impl: true, PerPair: 6, MinimalAnn: pi % 2}
		bt := gen.Build(spec)
		files := gen.Render(bt.P, gen.RenderOpts{NearMiss: base.NewRand(r.Seed, fmt.Sprintf("nm-%d", pi))})
		dir := ggrun.Scratch()
		defer os.RemoveAll(dir)
		ggrun.WriteTree(dir, files)
		cfg := [][]string{{}, {"-config.scan-tests=true", "-config.exclude-paths="}}[pi%2]
		res := ggrun.Run(ggrun.Opts{Dir: dir, Args: append(append([]string{}, cfg...), "./...")})
		r.Eval(1)
		fs := map[string]string{}
		for k, v := range files {
			fs["module/"+k] = v
		}
		if bad, why := res.Crashed(false); bad {
			if ok, out := ggrun.CompileCheck(dir); !ok {
				base.Harness("near-miss program does not compile: %s", out)
			}
			r.Violate("nearmiss/abnormal-exit", why+"\n"+head(res.Stderr, 2000), fs)
			return
		}
		if len(res.Diags) > 0 {
			d := res.Diags[0]
			// which near-miss shape is on the declaration? report the line of the type/func doc for attribution
			r.Violate("nearmiss/diagnostic/"+d.Code[:len(d.Code)-2], fmt.Sprintf("program %d cfg %v: %d diagnostics on a program without annotations; first: %s at %s:%d\n%s", pi, cfg, len(res.Diags), d.Code, d.File, d.Line, head(d.Msg, 500)), fs)
			return
		}
		mu.Lock()
		diagFree++
		mu.Unlock()
		r.Distinct(fmt.Sprintf("nearmiss/%d", pi))
		if pi < 2 {
			for name, c := range files {
				if strings.HasSuffix(name, "d0/types.go") {
					r.Sample(map[string]any{"near_miss_program": pi, "file": name, "head": head(c, 500), "diagnostics": 0})
				}
			}
		}
	})
	// (c) keywords in the places the statement names explicitly: on local declarations (in function bodies, in method
	// bodies, in function literals of package-level initialisers - also when the local type shares its name with a
	// package-level type) and in trailing comments. No top-level declaration carries an annotation.
	{
		files := map[string]string{
			"go.mod": "module nm\n\ngo 1.25\n",
			"p/p.go": `package p

// T is a plain type.
type T struct{ F int }

type U struct{ F int } // @constructor NewU

var x = T{} // @immutable

// NewT makes a T.
func NewT() *T { return &T{} }

func helper() {} // @testonly

func use() {
	t := T{}
	t.F = 1
	t.F++
	_ = new(T)
	var z T
	_ = z
	_ = U{}
	helper()
}

func local() {
	// @immutable
	// @constructor NewT
	// @testonly
	// @packageonly
	// @implements Missing
	type T struct{ F int }
	var t T
	t.F = 2
	// @testonly
	h := func() {}
	h()
}

type R struct{}

func (r R) m() {
	func() {
		// @immutable
		// @implements nosuch.Iface
		type U struct{ F int }
		var u U
		u.F = 3
	}()
}

var table = map[string]func(){
	"k": func() {
		// @immutable
		// @constructor NewT
		// @implements nosuch.Iface
		// @packageonly
		type T struct{ F int }
		var t T
		t.F = 4
	},
}

var run = func() int {
	// @testonly
	// @immutable
	type U struct{ F int }
	return len([]U{{F: 1}})
}()
`,
			"q/q.go": "package q\n\nimport \"nm/p\"\n\nfunc f() {\n\tt := p.NewT()\n\tt.F = 5\n\t_ = p.T{}\n\t_ = new(p.U)\n\tvar u p.U\n\tu.F++\n}\n",
		}
		root := ggrun.Scratch()
		ggrun.WriteTree(root, files)
		fs := map[string]string{}
		for k, v := range files {
			fs["module/"+k] = v
		}
		if ok, out := ggrun.CompileCheck(root); !ok {
			base.Harness("C09 local-declaration module does not compile: %s", out)
		}
		for ci, cfg := range [][]string{{}, {"-config.scan-tests=true"}, {"-config.exclude-paths="}} {
			res := ggrun.Run(ggrun.Opts{Dir: root, Args: append(append([]string{}, cfg...), "./...")})
			r.Eval(1)
			if bad, why := res.Crashed(false); bad {
				r.Violate("crash/"+crashKey(res.Stderr), why+"\n"+head(res.Stderr, 2000), fs)
				continue
			}
			r.Distinct(fmt.Sprintf("local-declarations/cfg%d", ci))
			for _, d := range res.Diags {
				r.Violate("unannotated/local-or-trailing-comment/"+d.Code, fmt.Sprintf("cfg %v: %s at %s:%d although no top-level declaration of the module is annotated (keywords appear only on local declarations and in trailing comments)", cfg, d.Code, d.File, d.Line), fs)
			}
		}
		os.RemoveAll(root)
	}
	r.Obs("near_miss_programs_without_diagnostics", diagFree)
	r.Obs("near_miss_shapes_rendered", gen.NearMissKinds)
	r.Sample(map[string]any{"corpus_sample": headList(okPkgs, 8)})
	r.Finish()
}
