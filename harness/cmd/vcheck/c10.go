package main

// C10 — analysis is total: no panic, internal error or hang on any compilable package.

import (
	"encoding/json"
	"fmt"
	"os"
	"os/exec"
	"path/filepath"
	"sort"
	"strings"
	"sync"
	"time"

	"verif/harness/internal/base"
	"verif/harness/internal/gen"
	"verif/harness/internal/ggrun"
)

func init() { register("C10", checkC10) }

const modcache = "/root/go/pkg/mod"

type corpusDep struct {
	module, src, local string
	patterns           []string
	vetOK              bool // its test files compile offline, so the vet driver can be used
}

var corpusDeps = []corpusDep{
	{"gopkg.in/yaml.v3", "gopkg.in/yaml.v3@v3.0.1", "yaml", []string{"gopkg.in/yaml.v3"}, false},
	{"github.com/stretchr/testify", "github.com/stretchr/testify@v1.11.1", "testify", []string{"github.com/stretchr/testify/assert", "github.com/stretchr/testify/require"}, false},
	{"github.com/davecgh/go-spew", "github.com/davecgh/go-spew@v1.1.1", "spew", []string{"github.com/davecgh/go-spew/spew"}, true},
	{"github.com/pmezard/go-difflib", "github.com/pmezard/go-difflib@v1.0.0", "difflib", []string{"github.com/pmezard/go-difflib/difflib"}, true},
	{"golang.org/x/tools", "golang.org/x/tools@v0.38.0", "tools", []string{"golang.org/x/tools/go/ast/...", "golang.org/x/tools/go/types/typeutil", "golang.org/x/tools/go/analysis/passes/printf", "golang.org/x/tools/go/analysis/passes/copylock", "golang.org/x/tools/go/analysis/passes/nilness", "golang.org/x/tools/go/cfg"}, false},
}

func copyTree(src, dst string) error {
	cmd := exec.Command("cp", "-r", src, dst)
	if out, err := cmd.CombinedOutput(); err != nil {
		return fmt.Errorf("cp: %v %s", err, out)
	}
	return exec.Command("chmod", "-R", "u+w", dst).Run()
}

// makeInjectedCorpus copies the dependency modules next to a corpus module that replaces them with the local copies.
func makeInjectedCorpus(deps []corpusDep) (string, error) {
	root := ggrun.Scratch()
	sum, _ := os.ReadFile(repoDir() + "/go.sum")
	mod := corpusGoMod + "\nreplace (\n"
	os.MkdirAll(filepath.Join(root, "deps"), 0o755)
	for _, d := range deps {
		if err := copyTree(filepath.Join(modcache, d.src), filepath.Join(root, "deps", d.local)); err != nil {
			return root, err
		}
		if _, err := os.Stat(filepath.Join(root, "deps", d.local, "go.mod")); err != nil {
			os.WriteFile(filepath.Join(root, "deps", d.local, "go.mod"), []byte("module "+d.module+"\n"), 0o644)
		}
		mod += "\t" + d.module + " => ./deps/" + d.local + "\n"
	}
	mod += ")\n"
	ggrun.WriteTree(root, map[string]string{"go.mod": mod, "go.sum": string(sum),
		"dummy.go": "package corpus\n\nimport (\n\t_ \"github.com/davecgh/go-spew/spew\"\n\t_ \"github.com/pmezard/go-difflib/difflib\"\n\t_ \"github.com/stretchr/testify/assert\"\n\t_ \"golang.org/x/tools/go/analysis\"\n\t_ \"gopkg.in/yaml.v3\"\n)\n"})
	return root, nil
}

func checkC10(replay string) {
	r := base.NewRun("C10")
	r.Rule = "(a) real-world modules (yaml.v3, testify, go-spew, go-difflib, x/tools packages) are copied, annotations of every kind are injected above PRNG-chosen declarations and fields (several rounds, rates 5-40%), and the copies are analysed by the real binary (default and scan-tests) and, where their tests compile offline, by go vet -vettool; (b) generated programs with every FREE / exotic shape (generics, embedding, aliases of predeclared types, labels, method expressions, package-level initialisers in every position) under both drivers; (c) modules whose doc comments are fuzzed '@keyword<random bytes>' strings; every run must end with the diagnostics status (json: 0; text: 0 or 3), without panic / fatal error / internal error / analyzer error, within the CPU bound; distinct = distinct (workload, round, configuration, driver) runs that produced at least one diagnostic or analysed at least one annotated package"
	r.Assume = []string{"hang bound: child CPU time > 300 s (nothing decides on wall-clock time)", "corpus copies still compile after injection (only comment lines are inserted); a compile failure is a harness error"}
	var mu sync.Mutex
	codes := map[string]int{}
	totalDiags := 0
	record := func(ds []ggrun.Diag) {
		mu.Lock()
		for _, d := range ds {
			codes[d.Code]++
		}
		totalDiags += len(ds)
		mu.Unlock()
	}
	judge := func(name string, res *ggrun.Result, text bool, fs map[string]string) bool {
		r.Eval(1)
		if res.CPU > 300*time.Second {
			r.Violate("hang/"+name, fmt.Sprintf("%s: child used %v of CPU", name, res.CPU), fs)
			return false
		}
		if res.TimedOut {
			r.Inconclusive(name + ": wall-clock watchdog fired")
			return false
		}
		if bad, why := res.Crashed(text); bad {
			key := "crash/" + crashKey(res.Stderr)
			if strings.Contains(res.Stderr, "does not compile") || (strings.Contains(res.Stderr, "-: ") && !strings.Contains(res.Stderr, "panic")) && !strings.Contains(res.Stderr, "goroutine ") && strings.Contains(res.Stderr, ".go:") && strings.Contains(res.Stderr, "undefined:") {
				base.Harness("%s: workload does not compile: %s", name, head(res.Stderr, 1500))
			}
			r.Violate(key, fmt.Sprintf("%s: %s\nstderr:\n%s", name, why, head(res.Stderr, 5000)), fs)
			return false
		}
		return true
	}
	// ---------------- (a) injected corpora
	rounds := r.Pick(2, 12)
	deps := corpusDeps
	for round := 0; round < rounds; round++ {
		root, err := makeInjectedCorpus(deps)
		if err != nil {
			os.RemoveAll(root)
			base.Harness("corpus copy: %v", err)
		}
		rng := base.NewRand(r.Seed, fmt.Sprintf("c10-inj-%d", round))
		rate := []int{30, 8, 40, 15, 5, 25}[round%6]
		st, err := gen.InjectAnnotations(filepath.Join(root, "deps"), rng, rate)
		if err != nil {
			os.RemoveAll(root)
			base.Harness("inject: %v", err)
		}
		var pats []string
		for _, d := range deps {
			pats = append(pats, d.patterns...)
		}
		// compile gate (without tests)
		gate := exec.Command("go", append([]string{"build"}, pats...)...)
		gate.Dir = root
		if out, err := gate.CombinedOutput(); err != nil {
			keep := "/var/tmp/vfw-noncompiling-corpus"
			os.RemoveAll(keep)
			os.Rename(root, keep)
			base.Harness("injected corpus does not compile (kept in %s): %s", keep, head(string(out), 2000))
		}
		type job struct {
			name string
			args []string
			text bool
		}
		jobs := []job{
			{"corpus/default", append([]string{"-test=false"}, pats...), false},
			{"corpus/scan-tests", append([]string{"-test=false", "-config.scan-tests=true", "-config.exclude-paths="}, pats...), false},
			{"corpus/text-mode", append([]string{"-test=false"}, pats...), true},
		}
		base.Par(len(jobs), 3, func(i int) {
			j := jobs[i]
			res := ggrun.Run(ggrun.Opts{Dir: root, Args: j.args, Text: j.text, Timeout: 20 * time.Minute})
			if judge(fmt.Sprintf("%s round %d (rate %d%%, %d annotations in %d files)", j.name, round, rate, st.Annotations, st.Files), res, j.text, map[string]string{"how.txt": fmt.Sprintf("corpus round %d seed %d rate %d: re-run ./check C10", round, r.Seed, rate)}) {
				record(res.Diags)
				r.Distinct(fmt.Sprintf("%s/%d", j.name, round))
			}
		})
		// vet driver on the corpora whose tests compile offline
		var vetPats []string
		for _, d := range deps {
			if d.vetOK {
				vetPats = append(vetPats, d.patterns...)
			}
		}
		vres, verr := runVet(root, ggrun.Bin, nil, vetPats...)
		r.Eval(1)
		if vres.TimedOut && strings.HasPrefix(vres.Stdout, "hang:") {
			r.Violate("hang/vet-driver/corpus", fmt.Sprintf("go vet -vettool on injected %v (round %d): %s", vetPats, round, head(vres.Stdout, 3000)), nil)
		} else if vres.TimedOut {
			r.Inconclusive(fmt.Sprintf("go vet -vettool on injected corpus round %d: %s", round, head(vres.Stdout, 200)))
		} else if verr != nil || len(vres.Errors) > 0 || strings.Contains(vres.Stdout, "panic:") || strings.Contains(vres.Stdout, "fatal error:") || strings.Contains(vres.Stdout, "internal error") {
			r.Violate("crash/vet-driver/"+crashKey(vres.Stdout), fmt.Sprintf("go vet -vettool on injected %v (round %d): %v %v\n%s", vetPats, round, verr, vres.Errors, head(vres.Stdout, 4000)), nil)
		} else {
			record(vres.Diags)
			r.Distinct(fmt.Sprintf("corpus/vet/%d", round))
		}
		r.Count("injected_annotations", st.Annotations)
		r.Count("injected_types", st.Types)
		r.Count("injected_funcs", st.Funcs)
		if round == 0 {
			r.Sample(map[string]any{"round": 0, "rate_percent": rate, "annotations": st.Annotations, "files_touched": st.Files, "types": st.Types, "funcs": st.Funcs, "ignore_comments": st.Ignores})
		}
		os.RemoveAll(root)
	}
	// ---------------- (a2) the standard library of the second toolchain, annotated through a go/packages overlay
	stdRounds := r.Pick(1, 8)
	for round := 0; round < stdRounds; round++ {
		c10StdOverlay(r, round, record)
	}
	// ---------------- (b) generated programs with exotic shapes, both drivers
	nProg := r.Pick(60, 1500)
	base.Par(nProg, 0, func(pi int) {
		spec := gen.Spec{Seed: r.Seed + 10000, Index: pi, Hostile: true, Tests: pi%4 == 0, Excluded: pi%3 == 0, Impl: pi%2 == 0, PerPair: 6, Exotic: true, MinimalAnn: pi % 2, Transit: pi%2 == 0, Unrelated: pi%5 == 0, Twin: pi%6 == 1}
		bt := gen.Build(spec)
		if pi%3 == 1 {
			gen.ShuffleDecls(bt.P, base.NewRand(r.Seed, fmt.Sprintf("c10-sh-%d", pi))) // package-level initialisers in every position
		}
		files := gen.Render(bt.P, gen.RenderOpts{})
		root := ggrun.Scratch()
		defer os.RemoveAll(root)
		ggrun.WriteTree(root, files)
		fs := map[string]string{}
		for k, v := range files {
			fs["module/"+k] = v
		}
		cfg := [][]string{{}, {"-config.scan-tests=true"}, {"-config.scan-tests=true", "-config.exclude-paths=", "-config.exclude-checks=zz"}}[pi%3]
		text := pi%4 == 1
		res := ggrun.Run(ggrun.Opts{Dir: root, Args: append(append([]string{}, cfg...), "./..."), Text: text, Timeout: 40 * time.Second})
		if res.TimedOut && res.CPU > 20*time.Second {
			// a generated program normally needs ~0.1 s of CPU; 20 s of CPU inside a 40 s watchdog is a hang, not a slow machine
			r.Eval(1)
			r.Violate("hang/generated-program", fmt.Sprintf("generated program %d cfg %v: the tool used %v of CPU without terminating (watchdog 40 s)\n%s", pi, cfg, res.CPU, head(res.Stderr, 3000)), fs)
			return
		}
		if bad, _ := res.Crashed(text); bad {
			if ok, out := ggrun.CompileCheck(root); !ok {
				keep := "/var/tmp/vfw-noncompiling"
				os.RemoveAll(keep)
				os.Rename(root, keep)
				base.Harness("generated program %d does not compile (kept in %s): %s", pi, keep, head(out, 2000))
			}
		}
		if judge(fmt.Sprintf("generated program %d cfg %v", pi, cfg), res, text, fs) {
			record(res.Diags)
			r.Distinct(fmt.Sprintf("gen/%d", pi))
		}
		if pi%5 == 0 && !spec.Tests {
			vres, verr := runVet(root, ggrun.Bin, cfg, "./...")
			r.Eval(1)
			if vres.TimedOut && strings.HasPrefix(vres.Stdout, "hang:") {
				r.Violate("hang/vet-driver/generated-program", fmt.Sprintf("go vet -vettool on generated program %d cfg %v: %s", pi, cfg, head(vres.Stdout, 3000)), fs)
			} else if vres.TimedOut {
				r.Inconclusive(fmt.Sprintf("go vet -vettool on generated program %d: %s", pi, head(vres.Stdout, 200)))
			} else if verr != nil || len(vres.Errors) > 0 || strings.Contains(vres.Stdout, "panic:") || strings.Contains(vres.Stdout, "fatal error:") {
				r.Violate("crash/vet-driver/"+crashKey(vres.Stdout), fmt.Sprintf("go vet -vettool on generated program %d: %v %v\n%s", pi, verr, vres.Errors, head(vres.Stdout, 4000)), fs)
			} else {
				r.Distinct(fmt.Sprintf("gen-vet/%d", pi))
			}
		}
	})
	// ---------------- (c) fuzzed annotation comments
	nFuzz := r.Pick(6, 60)
	base.Par(nFuzz, 0, func(fi int) {
		rg := base.NewRand(r.Seed, fmt.Sprintf("c10-fz-%d", fi))
		kws := []string{"@implements", "@constructor", "@immutable", "@testonly", "@mutable", "@packageonly", "@ignore"}
		alphabet := []string{" ", "\t", ",", "&", ".", "*", "/", "-", "_", "(", ")", "[", "]", "@", "$", "é", "世", "\\", "\"", "'", "`", "a", "Z", "0", "io", "Reader", "T0", "F1", "ALL", "IMM01", "\v", "\f", " ", "%s", "..", "//", "/*"}
		fz := func() string {
			s := "//"
			if rg.Bool() {
				s += " "
			}
			s += base.Pick(rg, kws)
			for k := 0; k < rg.Intn(10); k++ {
				s += base.Pick(rg, alphabet)
			}
			return strings.ReplaceAll(s, "*/", "* /")
		}
		var sb strings.Builder
		sb.WriteString("package fz\n\nimport \"io\"\n\nvar _ io.Reader\n\ntype Shape interface{ Area() int }\n\n")
		n := 300
		for i := 0; i < n; i++ {
			sb.WriteString(fz() + "\n" + fz() + "\n")
			fmt.Fprintf(&sb, "type T%d struct {\n\t%s\n\tF1 int\n\t%s\n\tS []int\n}\n\n", i, fz(), fz())
			sb.WriteString(fz() + "\n")
			fmt.Fprintf(&sb, "func F%d() *T%d {\n\t%s\n\tt := &T%d{}\n\tt.F1 = %d // %s\n\tt.S[0]++\n\treturn t\n}\n\n", i, i, fz(), i, i, strings.TrimPrefix(fz(), "//"))
			sb.WriteString(fz() + "\n")
			fmt.Fprintf(&sb, "func (t *T%d) M%d() { t.F1-- }\n\n", i, i)
		}
		user := "package fzuser\n\nimport \"fz/fz\"\n\nfunc Use() {\n"
		for i := 0; i < n; i++ {
			user += fmt.Sprintf("\t{\n\t\tt := fz.F%d()\n\t\tt.F1 = 1\n\t\tt.M%d()\n\t\t_ = fz.T%d{}\n\t\t_ = new(fz.T%d)\n\t}\n", i, i, i, i)
		}
		user += "}\n"
		root := ggrun.Scratch()
		defer os.RemoveAll(root)
		files := map[string]string{"go.mod": "module fz\n\ngo 1.25\n", "fz/fz.go": sb.String(), "fzuser/u.go": user}
		ggrun.WriteTree(root, files)
		res := ggrun.Run(ggrun.Opts{Dir: root, Args: []string{"./..."}})
		if bad, _ := res.Crashed(false); bad {
			if ok, out := ggrun.CompileCheck(root); !ok {
				base.Harness("fuzz module does not compile: %s", head(out, 1500))
			}
		}
		fs := map[string]string{}
		for k, v := range files {
			fs["module/"+k] = v
		}
		if judge(fmt.Sprintf("comment fuzz module %d", fi), res, false, fs) {
			record(res.Diags)
			r.Distinct(fmt.Sprintf("fuzz/%d", fi))
			r.Count("fuzzed_comment_lines", n*8)
		}
	})
	var cs []string
	for c, n := range codes {
		cs = append(cs, fmt.Sprintf("%s:%d", c, n))
	}
	sort.Strings(cs)
	r.Obs("codes_seen", cs)
	r.Obs("diagnostics_seen", totalDiags)
	r.Obs("corpus_rounds", rounds)
	if totalDiags == 0 && r.NViol() == 0 {
		base.Harness("C10 produced no diagnostic at all: the injected annotations are not reaching the analyzers")
	}
	r.Finish()
}

const go126 = "/opt/veriftools/go1.26.8/bin"

// c10StdOverlay: annotations are injected into copies of PRNG-chosen standard-library packages (go1.26.8 toolchain, whose
// GOROOT lies outside the module cache so that overlays are accepted) and handed to go/packages as an Overlay; the real
// analyzers run in-process (vcheck-std drive) over those packages and a set of large importers.
func c10StdOverlay(r *base.Run, round int, record func([]ggrun.Diag)) {
	stdBin := filepath.Join(base.BuildDir, "vcheck-std")
	if _, err := os.Stat(stdBin); err != nil {
		r.Inconclusive("std overlay: " + stdBin + " not built (./build.sh 1 builds it with go1.26.8)")
		return
	}
	env := []string{}
	for _, kv := range os.Environ() {
		if strings.HasPrefix(kv, "PATH=") || strings.HasPrefix(kv, "GOROOT=") || strings.HasPrefix(kv, "GOGREEMENT_") {
			continue
		}
		env = append(env, kv)
	}
	env = append(env, "PATH="+go126+":"+os.Getenv("PATH"), "GOTOOLCHAIN=local")
	root := ggrun.Scratch()
	defer os.RemoveAll(root)
	ggrun.WriteTree(root, map[string]string{"go.mod": "module stdprobe\n\ngo 1.25\n", "x.go": "package stdprobe\n"})
	list := exec.Command(go126+"/go", "list", "-f", "{{.ImportPath}} {{.Dir}}", "std")
	list.Dir, list.Env = root, env
	out, err := list.Output()
	if err != nil {
		r.Inconclusive(fmt.Sprintf("std overlay: go list std failed: %v", err))
		return
	}
	type sp struct{ path, dir string }
	var cands []sp
	for _, l := range strings.Split(strings.TrimSpace(string(out)), "\n") {
		f := strings.Fields(l)
		if len(f) != 2 || strings.Contains(f[0], "internal") || strings.HasPrefix(f[0], "vendor/") || f[0] == "unsafe" || f[0] == "runtime" || strings.HasPrefix(f[0], "runtime/") || f[0] == "syscall" || f[0] == "reflect" {
			continue
		}
		cands = append(cands, sp{f[0], f[1]})
	}
	rng := base.NewRand(r.Seed, fmt.Sprintf("c10-std-%d", round))
	base.Shuffle(rng, cands)
	n := 45
	if n > len(cands) {
		n = len(cands)
	}
	chosen := cands[:n]
	copyRoot := filepath.Join(root, "stdcopy")
	orig := map[string]string{} // copied file -> original path
	for _, c := range chosen {
		ents, _ := os.ReadDir(c.dir)
		for _, e := range ents {
			if e.IsDir() || !strings.HasSuffix(e.Name(), ".go") || strings.HasSuffix(e.Name(), "_test.go") {
				continue
			}
			b, err := os.ReadFile(filepath.Join(c.dir, e.Name()))
			if err != nil {
				continue
			}
			dst := filepath.Join(copyRoot, c.path, e.Name())
			os.MkdirAll(filepath.Dir(dst), 0o755)
			os.WriteFile(dst, b, 0o644)
			orig[dst] = filepath.Join(c.dir, e.Name())
		}
	}
	rate := []int{25, 10, 40, 5}[round%4]
	st, err := gen.InjectAnnotations(copyRoot, rng, rate)
	if err != nil {
		base.Harness("std overlay inject: %v", err)
	}
	overlay := map[string]string{}
	for dst, src := range orig {
		nb, _ := os.ReadFile(dst)
		ob, _ := os.ReadFile(src)
		if string(nb) != string(ob) {
			overlay[src] = string(nb)
		}
	}
	ob, _ := json.Marshal(overlay)
	ovPath := filepath.Join(root, "overlay.json")
	os.WriteFile(ovPath, ob, 0o644)
	pats := []string{"net/http", "go/types", "encoding/json", "text/template", "html/template", "database/sql", "crypto/tls", "testing", "go/printer", "image/png"}
	for _, c := range chosen {
		pats = append(pats, c.path)
	}
	evOut := filepath.Join(root, "events.jsonl")
	args := append([]string{"drive", "-dir", root, "-out", evOut, "-tests=false", "-overlay", ovPath}, pats...)
	cmd := exec.Command(stdBin, args...)
	cmd.Env = env
	b, runErr := cmd.CombinedOutput()
	r.Eval(1)
	var sum driveSummary
	for _, l := range strings.Split(string(b), "\n") {
		if strings.HasPrefix(l, "DRIVE-SUMMARY ") {
			json.Unmarshal([]byte(strings.TrimPrefix(l, "DRIVE-SUMMARY ")), &sum)
		}
	}
	name := fmt.Sprintf("std overlay round %d (rate %d%%, %d annotations in %d files of %d packages)", round, rate, st.Annotations, len(overlay), len(chosen))
	if len(sum.LoadErrors) > 0 {
		base.Harness("%s: the overlay broke the build: %v", name, headList(sum.LoadErrors, 3))
	}
	if runErr != nil || sum.Actions == 0 || strings.Contains(string(b), "panic:") || strings.Contains(string(b), "fatal error:") {
		r.Violate("crash/std-overlay/"+crashKey(string(b)), fmt.Sprintf("%s: in-process driver died: %v\n%s", name, runErr, head(string(b), 5000)), map[string]string{"overlay.json": string(ob)})
		return
	}
	for _, ae := range sum.ActionErrors {
		r.Violate("crash/std-overlay/action-error", fmt.Sprintf("%s: %s", name, ae), map[string]string{"overlay.json": string(ob)})
		break
	}
	for _, mp := range sum.MonitorProblems {
		r.Violate("monitor/std-overlay", fmt.Sprintf("%s: %s", name, mp), nil)
		break
	}
	for _, fp := range sum.FactProblems {
		r.Violate("facts/std-overlay", fmt.Sprintf("%s: %s", name, fp), nil)
		break
	}
	// diagnostics by code
	var ds []ggrun.Diag
	if ev, err := os.ReadFile(evOut); err == nil {
		for _, l := range strings.Split(string(ev), "\n") {
			var e driveEvent
			if l != "" && json.Unmarshal([]byte(l), &e) == nil && e.Ev == "rootdiag" {
				d := ggrun.Diag{File: e.File, Line: e.Line, Msg: e.Msg}
				if m := strings.Index(e.Msg, "["); m >= 0 {
					if k := strings.Index(e.Msg[m:], "]"); k > 0 {
						d.Code = e.Msg[m+1 : m+k]
					}
				}
				ds = append(ds, d)
			}
		}
	}
	record(ds)
	r.Distinct(fmt.Sprintf("std-overlay/%d", round))
	r.Count("std_overlay_annotations", st.Annotations)
	r.Count("std_overlay_packages_loaded", sum.Packages)
	r.Count("std_overlay_actions", sum.Actions)
	r.Count("std_overlay_diagnostics", len(ds))
	if round == 0 {
		r.Sample(map[string]any{"std_overlay_round": 0, "annotated_files": len(overlay), "annotations": st.Annotations, "actions": sum.Actions, "diagnostics": len(ds), "in_situ_contains_checked": sum.ContainsChecked})
	}
}
