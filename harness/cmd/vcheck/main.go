// vcheck: one binary holding every runtime monitor for gogreement (see /verif/DESIGN.md).
// usage: vcheck <ID> [--replay dir]   (tier/seed via VERIF_TIER / VERIF_SEED)
//
//	vcheck drive ...             (in-process go/analysis driver child, see drive.go)
package main

import (
	"fmt"
	"os"
	"sort"
)

type checkFn func(replay string)

var checks = map[string]checkFn{}

func register(id string, f checkFn) { checks[id] = f }

func main() {
	if len(os.Args) < 2 {
		usage()
	}
	id := os.Args[1]
	if sub, ok := subcommands[id]; ok {
		sub(os.Args[2:])
		return
	}
	f, ok := checks[id]
	if !ok {
		usage()
	}
	replay := ""
	for i := 2; i < len(os.Args); i++ {
		if os.Args[i] == "--replay" && i+1 < len(os.Args) {
			replay = os.Args[i+1]
			i++
		}
	}
	f(replay)
}

var subcommands = map[string]func(args []string){}

func usage() {
	ids := []string{}
	for k := range checks {
		ids = append(ids, k)
	}
	sort.Strings(ids)
	fmt.Fprintf(os.Stderr, "usage: vcheck <ID> [--replay dir]; IDs: %v\n", ids)
	os.Exit(2)
}

// repoDir: the repository under test (the registered checks always use /repo; snapshot sweeps may point elsewhere).
func repoDir() string {
	if d := os.Getenv("VERIF_REPO"); d != "" {
		return d
	}
	return "/repo"
}
