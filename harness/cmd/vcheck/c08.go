package main

// C08 — exclude-checks removes exactly the matching codes, project-wide.
// Events: diagnostic set of the real binary under S (flag or environment). Oracle: baseline filtered by the reference hierarchy table.

import (
	"fmt"
	"os"
	"sort"
	"strings"
	"sync"

	"verif/harness/internal/base"
	"verif/harness/internal/gen"
	"verif/harness/internal/ggrun"
)

func init() { register("C08", checkC08) }

// refExcluded: reference semantics of one exclusion list (split on commas, trimmed, empties dropped, upper-cased; ALL > category > code).
func refExcluded(list string, code string) bool {
	cat := refCodes[code]
	for _, it := range strings.Split(list, ",") {
		// "any letter case" of a code: ASCII letters only; ı (U+0131) or ſ (U+017F) are not letters of any code
		t := strings.Map(func(c rune) rune {
			if c >= 'a' && c <= 'z' {
				return c - 32
			}
			return c
		}, strings.TrimSpace(it))
		if t == "" {
			continue
		}
		if t == "ALL" || t == cat || t == code {
			return true
		}
	}
	return false
}

func diagKeys(ds []ggrun.Diag) map[string]string {
	m := map[string]string{}
	for _, d := range ds {
		m[fmt.Sprintf("%s:%d:%d|%s|%s", d.File, d.Line, d.Col, d.Analyzer, d.Msg)] = d.Code
	}
	return m
}

func randCase(r *base.Rand, s string) string {
	b := []byte(s)
	for i := range b {
		if r.Bool() {
			b[i] = strings.ToLower(string(b[i]))[0]
		} else {
			b[i] = strings.ToUpper(string(b[i]))[0]
		}
	}
	return string(b)
}

func checkC08(replay string) {
	r := base.NewRun("C08")
	r.Rule = "programs producing all 16 codes are run with exclude-checks = S given by flag and by environment; S ranges over every single token (ALL, 5 categories, 16 codes, junk), all pairs of categories, and random subsets in random case and spacing; the diagnostic set must equal the unrestricted run filtered by the reference hierarchy table; distinct = distinct (program, normalised S, channel) configurations that exclude at least one but not all baseline diagnostics or contain junk"
	r.Assume = []string{"reference code table and hierarchy copied from the book"}
	nProg := r.Pick(3, 12)
	nRandom := r.Pick(60, 600)
	junk := []string{"IMM0", "IMM011", "XX", "A L L", "", " ", "IM", "MM01", "01", "IMM 01", "CTOR1", "ALLL", "TONL0", "PKGO", "impl", "iMm02", "ımm", "ımm01", "ımpl", "ımpl03", "ALLſ"}
	type job struct {
		pi   int
		s    string
		env  bool
		desc string
	}
	var mu sync.Mutex
	codesSeenAll := map[string]bool{}
	for pi := 0; pi < nProg; pi++ {
		spec := gen.Spec{Seed: r.Seed + 8000, Index: pi, Hostile: pi%2 == 0, Impl: true, PerPair: 6, MinimalAnn: 1 - pi%2}
		if pi == 0 {
			spec.MinimalAnn = 1
		}
		bt := gen.Build(spec)
		// scoped @ignore comments for unrelated / unknown codes in the middle of files: project-wide exclusion must not depend on them
		irng := base.NewRand(r.Seed, fmt.Sprintf("c08-ign-%d", pi))
		nIgn := 0
		for _, st := range gen.Statements(bt.P) {
			if st.IsStatement() && irng.Chance(1, 25) {
				st.N.Lead = append(st.N.Lead, &gen.Ignore{Codes: base.Pick(irng, []string{"ZZ99", "IMPL02", "QQ", "CTOR02, ZZ1"})})
				nIgn++
			} else if st.IsStatement() && irng.Chance(1, 12) {
				// markers BROADER than what S may name (category, ALL): what they suppress in the unrestricted run stays
				// suppressed under every S - the exclusion list and the markers are independent
				st.N.Lead = append(st.N.Lead, &gen.Ignore{Codes: base.Pick(irng, []string{"IMM", "ALL", "CTOR", "TONL, PKGO", "all", "imm"})})
				nIgn++
			}
		}
		files := gen.Render(bt.P, gen.RenderOpts{})
		root := ggrun.Scratch()
		ggrun.WriteTree(root, files)
		base0 := ggrun.Run(ggrun.Opts{Dir: root, Args: []string{"./..."}})
		if bad, why := base0.Crashed(false); bad {
			if ok, out := ggrun.CompileCheck(root); !ok {
				base.Harness("generated program does not compile: %s", out)
			}
			r.Violate("crash/"+crashKey(base0.Stderr), "baseline run: "+why, map[string]string{"stderr.txt": base0.Stderr})
			os.RemoveAll(root)
			continue
		}
		B := diagKeys(base0.Diags)
		r.Count("scoped_ignore_comments_in_programs", nIgn)
		seen := map[string]bool{}
		for _, c := range B {
			seen[c] = true
			codesSeenAll[c] = true
		}
		if pi == 0 && len(seen) < 16 {
			base.Harness("all-codes program produced only %d of 16 codes: %v", len(seen), seen)
		}
		var jobs []job
		singles := append(append([]string{"ALL"}, refCategories...), refAllCodes...)
		for _, t := range append(singles, junk...) {
			jobs = append(jobs, job{pi, t, false, "single"}, job{pi, t, true, "single"})
			jobs = append(jobs, job{pi, strings.ToLower(t), pi%2 == 0, "single-lower"})
		}
		for i, a := range refCategories {
			for _, b := range refCategories[i+1:] {
				jobs = append(jobs, job{pi, a + "," + b, (i % 2) == 0, "category-pair"})
			}
		}
		rng := base.NewRand(r.Seed, fmt.Sprintf("c08-%d", pi))
		pool := append(append([]string{}, singles[1:]...), junk...)
		for k := 0; k < nRandom; k++ {
			n := 1 + rng.Intn(5)
			var items []string
			for j := 0; j < n; j++ {
				t := randCase(rng, base.Pick(rng, pool))
				switch rng.Intn(4) {
				case 0:
					t = " " + t
				case 1:
					t = t + "  "
				case 2:
					t = "\t" + t + " "
				}
				items = append(items, t)
			}
			if rng.Chance(1, 6) {
				items = append(items, "")
			}
			jobs = append(jobs, job{pi, strings.Join(items, ","), rng.Bool(), "random"})
		}
		base.Par(len(jobs), 0, func(ji int) {
			j := jobs[ji]
			var o ggrun.Opts
			if j.env {
				o = ggrun.Opts{Dir: root, Args: []string{"./..."}, Env: []string{"GOGREEMENT_EXCLUDE_CHECKS=" + j.s}}
			} else {
				o = ggrun.Opts{Dir: root, Args: []string{"-config.exclude-checks=" + j.s, "./..."}}
			}
			res := ggrun.Run(o)
			r.Eval(1)
			chn := "flag"
			if j.env {
				chn = "env"
			}
			if bad, why := res.Crashed(false); bad {
				r.Violate("crash/exclude-checks/"+chn, fmt.Sprintf("S=%q via %s: %s\n%s", j.s, chn, why, head(res.Stderr, 1500)), nil)
				return
			}
			got := diagKeys(res.Diags)
			want := map[string]string{}
			removed := 0
			for k, c := range B {
				if refExcluded(j.s, c) {
					removed++
				} else {
					want[k] = c
				}
			}
			var missing, extra []string
			for k, c := range want {
				if _, ok := got[k]; !ok {
					missing = append(missing, c+" "+head(k, 90))
				}
			}
			for k, c := range got {
				if _, ok := want[k]; !ok {
					extra = append(extra, c+" "+head(k, 90))
				}
			}
			if len(missing)+len(extra) > 0 {
				sort.Strings(missing)
				sort.Strings(extra)
				dir := "removed-too-much"
				if len(extra) > 0 {
					dir = "removed-too-little"
				}
				fs := map[string]string{"argv.txt": fmt.Sprintf("S=%q channel=%s", j.s, chn)}
				for n, c := range files {
					fs["module/"+n] = c
				}
				r.Violate("exclude/"+dir+"/"+j.desc+"/"+chn, fmt.Sprintf("program %d, exclude-checks=%q via %s: expected %d diagnostics (baseline %d minus %d), got %d. missing: %v ; unexpected: %v", j.pi, j.s, chn, len(want), len(B), removed, len(got), headList(missing, 4), headList(extra, 4)), fs)
			}
			if (removed > 0 && removed < len(B)) || j.desc != "single" {
				norm := strings.ToUpper(strings.Join(strings.Fields(j.s), ""))
				r.Distinct(fmt.Sprintf("%d|%s|%s", j.pi, norm, chn))
			}
			if ji%97 == 0 {
				mu.Lock()
				r.Sample(map[string]any{"program": j.pi, "S": j.s, "channel": chn, "baseline": len(B), "expected": len(want), "observed": len(got)})
				mu.Unlock()
			}
		})
		os.RemoveAll(root)
	}
	cs := []string{}
	for c := range codesSeenAll {
		cs = append(cs, c)
	}
	sort.Strings(cs)
	r.Obs("codes_in_baselines", cs)
	r.Finish()
}
