package main

// vcheck drive — the in-process go/analysis driver child. Runs the REAL analyzers (analyzer.AllAnalyzers) through
// golang.org/x/tools/go/analysis/checker with an instrumentation shim at the framework's own seams:
//   - every Analyzer.Run is wrapped: start/end events, every reported diagnostic, every exported fact (gob round trip);
//   - a monitor analyzer "verifmon" (Requires ignorereader + annotationreader) checks the real intermediate results online
//     (IgnoreSet.Contains vs list-scan model at every marker boundary; marker ranges well-formed; facts vs reader result).
// Events go to a JSON-lines file; a summary is printed on stdout. A panic kills this child, never the check.

import (
	"bytes"
	"encoding/gob"
	"encoding/json"
	"flag"
	"fmt"
	"go/token"
	"os"
	"reflect"
	"runtime"
	"sort"
	"strings"
	"sync"
	"sync/atomic"
	"time"

	"golang.org/x/tools/go/analysis"
	"golang.org/x/tools/go/analysis/checker"
	"golang.org/x/tools/go/packages"

	"github.com/a14e/gogreement/src/analyzer"
	"github.com/a14e/gogreement/src/annotations"
	"github.com/a14e/gogreement/src/ignore"

	"verif/harness/internal/base"
)

func init() { subcommands["drive"] = driveMain }

type driveEvent struct {
	Ev   string `json:"ev"`
	Pkg  string `json:"pkg,omitempty"`
	An   string `json:"an,omitempty"`
	Seq  int64  `json:"seq,omitempty"`
	File string `json:"file,omitempty"`
	Line int    `json:"line,omitempty"`
	Col  int    `json:"col,omitempty"`
	Msg  string `json:"msg,omitempty"`
	Err  string `json:"err,omitempty"`
	Info string `json:"info,omitempty"`
	OK   bool   `json:"ok,omitempty"`
	N    int    `json:"n,omitempty"`
}

type driveSummary struct {
	Packages        int      `json:"packages"`
	Actions         int      `json:"actions"`
	Diagnostics     int      `json:"diagnostics"`
	ActionErrors    []string `json:"action_errors"`
	Facts           int      `json:"facts"`
	FactProblems    []string `json:"fact_problems"`
	MonitorProblems []string `json:"monitor_problems"`
	ContainsChecked int64    `json:"contains_checked"`
	MaxConcurrent   int64    `json:"max_concurrent_actions"`
	Overlapped      int64    `json:"actions_started_while_another_ran"`
	OrderHash       string   `json:"completion_order_hash"`
	LoadErrors      []string `json:"load_errors"`
	Markers         int      `json:"ignore_markers_seen"`
}

func driveMain(args []string) {
	fs := flag.NewFlagSet("drive", flag.ExitOnError)
	dir := fs.String("dir", ".", "module directory")
	out := fs.String("out", "", "event log (JSON lines)")
	sequential := fs.Bool("sequential", false, "")
	sanity := fs.Bool("sanity", false, "")
	perturb := fs.Int64("perturb", 0, "seed for schedule perturbation at Run entry (0 = none)")
	concurrent := fs.Int("concurrent", 1, "number of concurrent checker.Analyze calls over disjoint package subsets")
	tests := fs.Bool("tests", true, "load test variants")
	scanTests := fs.String("scan-tests", "", "")
	exclPaths := fs.String("exclude-paths", "\x00", "")
	exclChecks := fs.String("exclude-checks", "\x00", "")
	overlay := fs.String("overlay", "", "JSON file: path -> content")
	fs.Parse(args)
	patterns := fs.Args()
	if len(patterns) == 0 {
		patterns = []string{"./..."}
	}
	if *scanTests != "" {
		analyzer.ConfigReader.Flags.Set("scan-tests", *scanTests)
	}
	if *exclPaths != "\x00" {
		analyzer.ConfigReader.Flags.Set("exclude-paths", *exclPaths)
	}
	if *exclChecks != "\x00" {
		analyzer.ConfigReader.Flags.Set("exclude-checks", *exclChecks)
	}
	var logMu sync.Mutex
	var logBuf bytes.Buffer
	emit := func(e driveEvent) {
		b, _ := json.Marshal(e)
		logMu.Lock()
		logBuf.Write(b)
		logBuf.WriteByte('\n')
		logMu.Unlock()
	}
	sum := &driveSummary{}
	var sumMu sync.Mutex
	problem := func(list *[]string, s string) {
		sumMu.Lock()
		if len(*list) < 50 {
			*list = append(*list, s)
		}
		sumMu.Unlock()
	}

	cfg := &packages.Config{Mode: packages.LoadAllSyntax, Dir: *dir, Tests: *tests}
	if *overlay != "" {
		b, err := os.ReadFile(*overlay)
		if err != nil {
			base.Harness("overlay: %v", err)
		}
		m := map[string]string{}
		json.Unmarshal(b, &m)
		cfg.Overlay = map[string][]byte{}
		for k, v := range m {
			cfg.Overlay[k] = []byte(v)
		}
	}
	pkgs, err := packages.Load(cfg, patterns...)
	if err != nil {
		base.Harness("packages.Load: %v", err)
	}
	packages.Visit(pkgs, nil, func(p *packages.Package) {
		for _, e := range p.Errors {
			problem(&sum.LoadErrors, p.ID+": "+e.Error())
		}
	})
	sum.Packages = len(pkgs)

	// ---- shim
	var seq, running, maxRunning, overlapped int64
	var orderMu sync.Mutex
	var order []string
	var contains int64
	var factsSeen int64
	var markers int64
	all := analyzer.AllAnalyzers()
	for _, a := range all {
		a := a
		orig := a.Run
		a.Run = func(p *analysis.Pass) (any, error) {
			n := atomic.AddInt64(&seq, 1)
			cur := atomic.AddInt64(&running, 1)
			if cur > 1 {
				atomic.AddInt64(&overlapped, 1)
			}
			for {
				m := atomic.LoadInt64(&maxRunning)
				if cur <= m || atomic.CompareAndSwapInt64(&maxRunning, m, cur) {
					break
				}
			}
			pkgID := p.Pkg.Path()
			if *perturb != 0 {
				rg := base.NewRand(*perturb, pkgID+"/"+a.Name)
				switch rg.Intn(4) {
				case 0:
					runtime.Gosched()
				case 1:
					time.Sleep(time.Duration(rg.Intn(2000)) * time.Microsecond)
				case 2:
					for i := 0; i < rg.Intn(50); i++ {
						runtime.Gosched()
					}
				}
			}
			emit(driveEvent{Ev: "start", Pkg: pkgID, An: a.Name, Seq: n})
			q := *p
			q.Report = func(d analysis.Diagnostic) {
				pos := p.Fset.Position(d.Pos)
				emit(driveEvent{Ev: "diag", Pkg: pkgID, An: a.Name, File: pos.Filename, Line: pos.Line, Col: pos.Column, Msg: d.Message})
				p.Report(d)
			}
			q.ExportPackageFact = func(f analysis.Fact) {
				atomic.AddInt64(&factsSeen, 1)
				okRT, info := gobRoundTrip(f)
				if !okRT {
					problem(&sum.FactProblems, fmt.Sprintf("%s/%s: %s", pkgID, a.Name, info))
				}
				// the fact must carry exactly what annotationreader returned for this package
				if w, isW := f.(annotations.AnnotationWrapper); isW {
					if res, okR := p.ResultOf[analyzer.AnnotationReader].(annotations.PackageAnnotations); okR {
						if !reflect.DeepEqual(normAnn(*w.GetAnnotations()), normAnn(res)) {
							problem(&sum.FactProblems, fmt.Sprintf("%s/%s: exported fact differs from the annotationreader result of the package", pkgID, a.Name))
						}
					}
				}
				emit(driveEvent{Ev: "fact", Pkg: pkgID, An: a.Name, OK: okRT, Info: info})
				p.ExportPackageFact(f)
			}
			res, err := orig(&q)
			e := ""
			if err != nil {
				e = err.Error()
			}
			emit(driveEvent{Ev: "end", Pkg: pkgID, An: a.Name, Seq: n, Err: e})
			orderMu.Lock()
			order = append(order, pkgID+"/"+a.Name)
			orderMu.Unlock()
			atomic.AddInt64(&running, -1)
			return res, err
		}
	}
	verifmon := &analysis.Analyzer{
		Name:     "verifmon",
		Doc:      "online monitor of the real intermediate results (harness only)",
		Requires: []*analysis.Analyzer{analyzer.IgnoreReader, analyzer.AnnotationReader, analyzer.ConfigReader},
		Run: func(p *analysis.Pass) (any, error) {
			ir, ok := p.ResultOf[analyzer.IgnoreReader].(ignore.IgnoreResult)
			if !ok || ir.IgnoreSet == nil {
				return nil, nil
			}
			set := ir.IgnoreSet
			global := []string{}
			if f := analyzer.ConfigReader.Flags.Lookup("exclude-checks"); f != nil {
				for _, it := range strings.Split(f.Value.String(), ",") {
					if it = strings.ToUpper(strings.TrimSpace(it)); it != "" {
						global = append(global, it)
					}
				}
			}
			var hist []igOp
			if len(global) > 0 {
				hist = append(hist, igOp{Global: true, Codes: global})
			}
			atomic.AddInt64(&markers, int64(len(set.Markers)))
			for _, m := range set.Markers {
				hist = append(hist, igOp{Codes: m.Codes, Start: int(m.StartPos), End: int(m.EndPos)})
				if m.StartPos > m.EndPos {
					problem(&sum.MonitorProblems, fmt.Sprintf("%s: marker with start %d > end %d", p.Pkg.Path(), m.StartPos, m.EndPos))
				}
				fs, fe := p.Fset.File(m.StartPos), p.Fset.File(m.EndPos)
				if fs == nil || fe == nil || fs != fe {
					problem(&sum.MonitorProblems, fmt.Sprintf("%s: marker range %d..%d is not inside one file", p.Pkg.Path(), m.StartPos, m.EndPos))
				}
			}
			for _, m := range set.Markers {
				for _, pos := range []token.Pos{m.StartPos - 1, m.StartPos, m.StartPos + 1, m.EndPos - 1, m.EndPos, m.EndPos + 1} {
					for _, code := range refAllCodes {
						got := set.Contains(code, pos)
						want := refContains(hist, code, int(pos))
						atomic.AddInt64(&contains, 1)
						if got != want {
							problem(&sum.MonitorProblems, fmt.Sprintf("%s: in-situ IgnoreSet.Contains(%s,%d)=%v, list-scan model over its own markers says %v", p.Pkg.Path(), code, pos, got, want))
						}
					}
				}
			}
			return nil, nil
		},
	}
	analyzers := append(append([]*analysis.Analyzer{}, all...), verifmon)

	// ---- run
	opts := &checker.Options{Sequential: *sequential, SanityCheck: *sanity}
	var graphs []*checker.Graph
	if *concurrent <= 1 {
		g, err := checker.Analyze(analyzers, pkgs, opts)
		if err != nil {
			base.Harness("checker.Analyze: %v", err)
		}
		graphs = append(graphs, g)
	} else {
		// disjoint root sets; the dependency closures overlap, which is what makes this a stress of shared state
		parts := make([][]*packages.Package, *concurrent)
		for i, p := range pkgs {
			parts[i%*concurrent] = append(parts[i%*concurrent], p)
		}
		var wg sync.WaitGroup
		var gmu sync.Mutex
		for _, part := range parts {
			if len(part) == 0 {
				continue
			}
			wg.Add(1)
			go func(part []*packages.Package) {
				defer wg.Done()
				// each concurrent call gets its own load: go/analysis actions are memoised per Graph
				g, err := checker.Analyze(analyzers, part, opts)
				if err != nil {
					problem(&sum.ActionErrors, "checker.Analyze: "+err.Error())
					return
				}
				gmu.Lock()
				graphs = append(graphs, g)
				gmu.Unlock()
			}(part)
		}
		wg.Wait()
	}
	seenDiag := map[string]bool{}
	for _, g := range graphs {
		for act := range g.All() {
			sum.Actions++
			if act.Err != nil {
				problem(&sum.ActionErrors, act.String()+": "+act.Err.Error())
			}
			if act.IsRoot {
				for _, d := range act.Diagnostics {
					pos := act.Package.Fset.Position(d.Pos)
					k := fmt.Sprintf("%s:%d:%d|%s|%s", pos.Filename, pos.Line, pos.Column, act.Analyzer.Name, d.Message)
					if !seenDiag[k] {
						seenDiag[k] = true
						emit(driveEvent{Ev: "rootdiag", Pkg: act.Package.ID, An: act.Analyzer.Name, File: pos.Filename, Line: pos.Line, Col: pos.Column, Msg: d.Message})
					}
				}
			}
		}
	}
	sum.Diagnostics = len(seenDiag)
	sum.Facts = int(factsSeen)
	sum.ContainsChecked = contains
	sum.MaxConcurrent = maxRunning
	sum.Overlapped = overlapped
	sum.Markers = int(markers)
	h := uint64(1469598103934665603)
	for _, o := range order {
		for _, c := range []byte(o) {
			h = (h ^ uint64(c)) * 1099511628211
		}
	}
	sum.OrderHash = fmt.Sprintf("%016x", h)
	if *out != "" {
		os.WriteFile(*out, logBuf.Bytes(), 0o644)
	}
	sort.Strings(sum.ActionErrors)
	b, _ := json.Marshal(sum)
	fmt.Println("DRIVE-SUMMARY " + string(b))
}

// normAnn: nil and empty slices are the same thing for a fact
func normAnn(p annotations.PackageAnnotations) string {
	b, _ := json.Marshal(p)
	return strings.ReplaceAll(string(b), "null", "[]")
}

func gobRoundTrip(f analysis.Fact) (bool, string) {
	var buf bytes.Buffer
	if err := gob.NewEncoder(&buf).Encode(f); err != nil {
		return false, "gob encode: " + err.Error()
	}
	nf := reflect.New(reflect.TypeOf(f).Elem()).Interface()
	if err := gob.NewDecoder(&buf).Decode(nf); err != nil {
		return false, "gob decode: " + err.Error()
	}
	a, _ := json.Marshal(f)
	b, _ := json.Marshal(nf)
	sa, sb := strings.ReplaceAll(string(a), "null", "[]"), strings.ReplaceAll(string(b), "null", "[]")
	if sa != sb {
		return false, fmt.Sprintf("fact changed by gob round trip: %s -> %s", head(sa, 300), head(sb, 300))
	}
	// every exported field must survive: count annotations per kind
	return true, fmt.Sprintf("bytes=%d", len(sa))
}
