package main

// C12 — verdicts do not depend on source layout; C13 — enforcement follows type identity, not spelling;
// C14 — excluded files are inert. All three re-render the same program model and compare by stable line ids.

import (
	"fmt"
	"os"
	"sort"
	"strings"
	"sync"

	"verif/harness/internal/base"
	"verif/harness/internal/gen"
	"verif/harness/internal/ggrun"
)

func init() {
	register("C12", checkC12)
	register("C13", checkC13)
	register("C14", checkC14)
}

// keyed: diagnostics keyed by line id (per-use codes) and by (package,type) for once-per-file codes.
type keyed struct {
	perLine map[string]bool // "lineID|cat|code"
	once    map[string]bool // "cat|pkg|type"
}

var onceTypeRe = func(msg string) string { // type name from the message of TONL01 / PKGO01 (display only)
	return ""
}

func keyDiags(bt *gen.Built, pr *progResult) keyed {
	k := keyed{perLine: map[string]bool{}, once: map[string]bool{}}
	for _, o := range ggrun.ToObs(pr.res.Diags) {
		l := bt.P.FindLine(o.File, o.Line)
		if o.Code == "TONL01" || o.Code == "PKGO01" {
			continue // compared through the model's OnceTypes below
		}
		if l == nil {
			k.perLine[fmt.Sprintf("?%s:%d|%s|%s", o.File, o.Line, o.Cat, o.Code)] = true
			continue
		}
		k.perLine[fmt.Sprintf("%d|%s|%s", l.ID, o.Cat, o.Code)] = true
	}
	return k
}

func diffSets(a, b map[string]bool) (onlyA, onlyB []string) {
	for x := range a {
		if !b[x] {
			onlyA = append(onlyA, x)
		}
	}
	for x := range b {
		if !a[x] {
			onlyB = append(onlyB, x)
		}
	}
	sort.Strings(onlyA)
	sort.Strings(onlyB)
	return
}

type variant struct {
	name  string
	apply func(bt *gen.Built, rng *base.Rand) gen.RenderOpts
}

func layoutVariants() []variant {
	shuffle := func(bt *gen.Built, rng *base.Rand) gen.RenderOpts {
		gen.ShuffleDecls(bt.P, rng)
		return gen.RenderOpts{}
	}
	move := func(bt *gen.Built, rng *base.Rand) gen.RenderOpts { gen.MoveDecls(bt.P, rng); return gen.RenderOpts{} }
	noise := func(bt *gen.Built, rng *base.Rand) gen.RenderOpts { return gen.RenderOpts{Noise: rng} }
	ugly := func(bt *gen.Built, rng *base.Rand) gen.RenderOpts { return gen.RenderOpts{Ugly: rng} }
	ren := func(bt *gen.Built, rng *base.Rand) gen.RenderOpts { return gen.RenderOpts{RenameLocals: true} }
	return []variant{
		{"shuffle-decls", shuffle}, {"move-decls", move}, {"blank-and-comment-lines", noise}, {"anti-format", ugly}, {"rename-locals", ren},
		{"shuffle+noise", func(bt *gen.Built, rng *base.Rand) gen.RenderOpts { o := shuffle(bt, rng); o.Noise = rng; return o }},
		{"move+shuffle+ugly", func(bt *gen.Built, rng *base.Rand) gen.RenderOpts {
			move(bt, rng)
			gen.ShuffleDecls(bt.P, rng)
			return gen.RenderOpts{Ugly: rng}
		}},
		{"move+noise+rename", func(bt *gen.Built, rng *base.Rand) gen.RenderOpts {
			move(bt, rng)
			return gen.RenderOpts{Noise: rng, RenameLocals: true}
		}},
	}
}

// judgeAbsolute reports model mismatches of a rendering as violations with a prefix.
func judgeAbsolute(r *base.Run, prefix string, pi int, pr *progResult, note string) int {
	seen := map[string]bool{}
	for _, m := range pr.mm {
		key := prefix + "/" + m.Key
		if seen[key] {
			continue
		}
		seen[key] = true
		r.Violate(key, fmt.Sprintf("program %d %s: %s", pi, note, m.Detail), replayFiles(pr, nil))
	}
	return len(seen)
}

func checkC12(replay string) {
	r := base.NewRun("C12")
	r.Rule = "each program model is rendered in its base layout and in layout variants (declaration permutation, declarations moved between files, blank/comment lines, anti-formatting, local renaming, compositions); diagnostics keyed by stable line id must be identical to the base rendering (TONL01/PKGO01: per (package,type) via the model), and every rendering is also judged absolutely by the reference model; distinct = (variant, program) pairs with at least one diagnostic compared"
	r.Assume = []string{"transformations are semantics-preserving by construction (compile gate on abnormal exit)", "line ids are stable across renderings of one program model"}
	nProg := r.Pick(20, 400)
	vars := layoutVariants()
	var mu sync.Mutex
	perVariant := map[string]int{}
	base.Par(nProg*(len(vars)), 0, func(job int) {
		pi, vi := job/len(vars), job%len(vars)
		spec := gen.Spec{Seed: r.Seed + 12000, Index: pi, Hostile: true, Tests: pi%3 == 0, Excluded: false, Impl: pi%4 == 0, PerPair: 8}
		cfg := gen.DefaultCfg()
		// a few @ignore comments (by node, so every variant carries the same ones): layout must not change what they cover
		withHeaders := !strings.Contains(vars[vi].name, "move") // a file-level @ignore stays with its file, not with a moved declaration
		sprinkle := func(bt *gen.Built) {
			irng := base.NewRand(r.Seed, fmt.Sprintf("c12-ign-%d", pi))
			if withHeaders {
				// file-level @ignore comments before the package clause: blank lines and ordinary comments inserted between
				// them and the clause (noise variants) must not change their scope
				hrng := base.NewRand(r.Seed, fmt.Sprintf("c12-hdr-%d", pi))
				for _, pk := range bt.P.Pkgs {
					for _, f := range pk.Files {
						if len(f.Decls) > 0 && hrng.Chance(1, 4) {
							f.AddHeaderIgnore(bt.P, base.Pick(hrng, []string{"IMM", "CTOR01", "TONL", "PKGO01, PKGO03", "imm02, ctor", "TONL01"}))
						}
					}
				}
			}
			for _, st := range gen.Statements(bt.P) {
				if len(st.N.Pre) == 0 {
					continue
				}
				if (st.IsStatement() || st.Depth == 0) && irng.Chance(1, 22) {
					st.N.Lead = append(st.N.Lead, &gen.Ignore{Codes: base.Pick(irng, []string{"PKGO01", "TONL01", "IMM", "CTOR01, CTOR03", "ALL", "pkgo", "TONL"})})
				}
			}
		}
		bt0 := gen.Build(spec)
		sprinkle(bt0)
		pr0 := runProgram(bt0, gen.RenderOpts{}, cfg, false)
		if pr0.crashed {
			if vi == 0 {
				r.Violate("crash/"+crashKey(pr0.res.Stderr), "base rendering: "+pr0.crashWhy+"\n"+head(pr0.res.Stderr, 3000), replayFiles(pr0, nil))
			}
			return
		}
		if vi == 0 {
			judgeAbsolute(r, "base", pi, pr0, "base rendering")
		}
		k0 := keyDiags(bt0, pr0)
		v := vars[vi]
		rng := base.NewRand(r.Seed, fmt.Sprintf("c12-%d-%d", pi, vi))
		bt := gen.Build(spec)
		sprinkle(bt)
		ro := v.apply(bt, rng)
		pr := runProgram(bt, ro, cfg, false)
		r.Eval(1)
		if pr.crashed {
			r.Violate("crash/"+v.name+"/"+crashKey(pr.res.Stderr), "variant "+v.name+": "+pr.crashWhy+"\n"+head(pr.res.Stderr, 3000), replayFiles(pr, nil))
			return
		}
		k1 := keyDiags(bt, pr)
		onlyBase, onlyVar := diffSets(k0.perLine, k1.perLine)
		if len(onlyBase)+len(onlyVar) > 0 {
			fs := replayFiles(pr, nil)
			for name, c := range pr0.files {
				fs["base/"+name] = c
			}
			r.Violate("layout/"+v.name+"/per-line-set-differs", fmt.Sprintf("program %d variant %s: diagnostics keyed by line id differ. only in base: %v ; only in variant: %v", pi, v.name, describeKeys(bt0, onlyBase), describeKeys(bt, onlyVar)), fs)
		}
		// once-per-file codes: which (package,type) are reported — compare where the model is determinate in both
		for _, cat := range []string{gen.TONL, gen.PKGO} {
			o0, o1 := observedOnce(bt0, pr0, cat), observedOnce(bt, pr, cat)
			for key, st0 := range pr0.exp.OnceTypes[cat] {
				st1 := pr.exp.OnceTypes[cat][key]
				if st0 == "free" || st1 == "free" || st1 == "" {
					continue
				}
				if o0[key] != o1[key] {
					r.Violate("layout/"+v.name+"/once-type-set-differs", fmt.Sprintf("program %d variant %s: %s once-per-file report for %s: base reported=%v variant reported=%v", pi, v.name, cat, key, o0[key], o1[key]), replayFiles(pr, nil))
				}
			}
		}
		judgeAbsolute(r, "layout/"+v.name, pi, pr, "variant "+v.name)
		mu.Lock()
		perVariant[v.name]++
		mu.Unlock()
		if len(k0.perLine) > 0 {
			r.Distinct(fmt.Sprintf("%s/%d", v.name, pi))
		}
		if pi == 0 {
			r.Sample(map[string]any{"variant": v.name, "per_line_diagnostics_compared": len(k0.perLine), "only_base": len(onlyBase), "only_variant": len(onlyVar)})
		}
	})
	r.Obs("renderings_per_variant", perVariant)
	r.Obs("programs", nProg)
	r.Finish()
}

func describeKeys(bt *gen.Built, ks []string) []string {
	var out []string
	for i, k := range ks {
		if i >= 6 {
			out = append(out, "…")
			break
		}
		var id int
		fmt.Sscanf(k, "%d|", &id)
		desc := k
		for _, s := range gen.Statements(bt.P) {
			for _, l := range append(append([]*gen.Line{}, s.N.Pre...), s.N.Post...) {
				if l.ID == id && l.File != nil {
					desc = fmt.Sprintf("%s @%s:%d %q", k, l.File.RelPath(), l.No, strings.TrimSpace(l.Out))
				}
			}
		}
		out = append(out, desc)
	}
	return out
}

// observedOnce: (package|type) keys for which the once-per-file code of cat was observed at least once in a package.
func observedOnce(bt *gen.Built, pr *progResult, cat string) map[string]bool {
	out := map[string]bool{}
	code := map[string]string{gen.TONL: "TONL01", gen.PKGO: "PKGO01"}[cat]
	for _, o := range ggrun.ToObs(pr.res.Diags) {
		if o.Code != code {
			continue
		}
		l := bt.P.FindLine(o.File, o.Line)
		if l == nil || l.File == nil {
			continue
		}
		for _, u := range l.Uses {
			if u.Kind == gen.UTypeRef && u.T != nil {
				out[l.File.EffPkgPath()+"|"+u.T.Pkg.Path+"."+u.T.Name] = true
			}
		}
	}
	return out
}

// ---------------------------------------------------------------- C13

func checkC13(replay string) {
	r := base.NewRun("C13")
	r.Rule = "each program model is rendered with the type mentions of the using packages respelled (local alias, alias declared in a third package, alias of an alias (chain), alias of the pointer type, parenthesised type and parenthesised pointer type, renamed import); per line id the same codes must be reported as in the direct spelling, and each rendering is judged absolutely by the reference model (which is spelling-blind); distinct = (spelling, program) pairs with respelled mentions that carry a MUST verdict"
	r.Assume = []string{"respellings denote identical types (Go alias declarations); compile gate on abnormal exit"}
	nProg := r.Pick(24, 400)
	spellings := []string{"alias-local", "alias-third-package", "alias-chain", "alias-of-pointer", "paren", "paren-pointer", "import-rename"}
	var mu sync.Mutex
	per := map[string]int{}
	base.Par(nProg*len(spellings), 0, func(job int) {
		pi, si := job/len(spellings), job%len(spellings)
		sp := spellings[si]
		spec := gen.Spec{Seed: r.Seed + 13000, Index: pi, Hostile: false, Tests: false, Excluded: false, PerPair: 10, Typed: true}
		cfg := gen.DefaultCfg()
		bt0 := gen.Build(spec)
		pr0 := runProgram(bt0, gen.RenderOpts{}, cfg, false)
		if pr0.crashed {
			if si == 0 {
				r.Violate("crash/"+crashKey(pr0.res.Stderr), "base: "+pr0.crashWhy, replayFiles(pr0, nil))
			}
			return
		}
		if si == 0 {
			judgeAbsolute(r, "base", pi, pr0, "direct spelling")
		}
		bt := gen.Build(spec)
		rng := base.NewRand(r.Seed, fmt.Sprintf("c13-%d-%d", pi, si))
		ro, respelled := gen.Respell(bt, sp, rng)
		pr := runProgram(bt, ro, cfg, false)
		r.Eval(1)
		if pr.crashed {
			r.Violate("crash/"+sp+"/"+crashKey(pr.res.Stderr), "spelling "+sp+": "+pr.crashWhy+"\n"+head(pr.res.Stderr, 2000), replayFiles(pr, nil))
			return
		}
		n := judgeAbsolute(r, "spelling/"+sp, pi, pr, "spelling "+sp)
		// metamorphic: per line id, restricted to lines that exist in the base program
		k0, k1 := keyDiags(bt0, pr0), keyDiags(bt, pr)
		onlyBase, onlyVar := diffSets(k0.perLine, k1.perLine)
		var ob, ov []string
		for _, k := range onlyBase {
			ob = append(ob, k)
		}
		for _, k := range onlyVar {
			var id int
			fmt.Sscanf(k, "%d|", &id)
			if id <= bt0.P.MaxID() {
				ov = append(ov, k)
			}
		}
		if len(ob)+len(ov) > 0 && n == 0 {
			r.Violate("spelling/"+sp+"/per-line-set-differs", fmt.Sprintf("program %d spelling %s: only direct: %v ; only respelled: %v", pi, sp, describeKeys(bt0, ob), describeKeys(bt, ov)), replayFiles(pr, nil))
		}
		mu.Lock()
		per[sp] += respelled
		mu.Unlock()
		if respelled > 0 {
			r.Distinct(fmt.Sprintf("%s/%d", sp, pi))
		}
		if pi == 0 {
			r.Sample(map[string]any{"spelling": sp, "respelled_mentions": respelled, "diagnostics_direct": len(pr0.res.Diags), "diagnostics_respelled": len(pr.res.Diags)})
		}
	})
	r.Obs("respelled_mentions_per_spelling", per)
	r.Finish()
}

// ---------------------------------------------------------------- C14

func neutralise(files map[string]string, root string, cfg gen.Cfg) (map[string]string, int) {
	out := map[string]string{}
	n := 0
	for name, c := range files {
		if strings.HasSuffix(name, ".go") && cfg.Excluded(root+"/"+name) {
			c2 := strings.ReplaceAll(c, "// @", "// at-")
			c2 = strings.ReplaceAll(c2, "//@", "// at-")
			if c2 != c {
				n++
			}
			c = c2
		}
		out[name] = c
	}
	return out, n
}

func checkC14(replay string) {
	r := base.NewRun("C14")
	r.Rule = "programs mixing regular, in-package and external _test.go files and files whose names contain exclude-paths tokens (with annotated types, @ignore comments and violations inside them), under scan-tests {off,on} x exclude-paths {empty, default, one token, three tokens, entries containing path separators}: (1) no diagnostic lies in a file excluded by the reference filter, (2) the diagnostics of the other files equal those of the same program with every annotation/@ignore in excluded files neutralised, (3) every line is judged by the reference model (test files: like any file under scan-tests, never TONL); distinct = (program, configuration) pairs in which at least one file was excluded and at least one diagnostic compared"
	nProg := r.Pick(12, 300)
	cfgs := []gen.Cfg{}
	for _, st := range []bool{false, true} {
		for _, ep := range [][]string{{}, {"testdata"}, {"gen_legacy", "gen_old"}, {"zz_skip", "gen_legacy", "testdata", "Gen_Old"}, {"u1/" + gen.PoolTokens[1%len(gen.PoolTokens)], "zz_skip_pkg/", "/d0/gen_", "u1/" + gen.PoolTokens[2%len(gen.PoolTokens)] + "_y"}} {
			cfgs = append(cfgs, gen.Cfg{ScanTests: st, ExcludePaths: ep})
		}
	}
	var mu sync.Mutex
	exclFiles, diagsInTests := 0, 0
	base.Par(nProg*len(cfgs), 0, func(job int) {
		pi, ci := job/len(cfgs), job%len(cfgs)
		cfg := cfgs[ci]
		spec := gen.Spec{Seed: r.Seed + 14000, Index: pi, Hostile: pi%2 == 0, Tests: true, Excluded: true, Impl: pi%3 == 0, PerPair: 8, ExclHeaders: true}
		bt := gen.Build(spec)
		pr := runProgram(bt, gen.RenderOpts{}, cfg, true)
		defer os.RemoveAll(pr.root)
		r.Eval(1)
		if pr.crashed {
			r.Violate("crash/"+crashKey(pr.res.Stderr), fmt.Sprintf("cfg %+v: %s\n%s", cfg, pr.crashWhy, head(pr.res.Stderr, 2000)), replayFiles(pr, nil))
			return
		}
		nEx := 0
		for name := range pr.files {
			if strings.HasSuffix(name, ".go") && cfg.Excluded(pr.root+"/"+name) {
				nEx++
			}
		}
		// (1) independent of the model: file of every diagnostic
		for _, d := range pr.res.Diags {
			if cfg.Excluded(pr.root + "/" + d.File) {
				r.Violate("excluded/diagnostic-in-excluded-file", fmt.Sprintf("program %d cfg %+v: %s reported at %s:%d which the configuration excludes", pi, cfg, d.Code, d.File, d.Line), replayFiles(pr, nil))
				break
			}
			if strings.HasSuffix(d.File, "_test.go") {
				mu.Lock()
				diagsInTests++
				mu.Unlock()
				if strings.HasPrefix(d.Code, "TONL") {
					r.Violate("excluded/tonl-in-test-file", fmt.Sprintf("program %d cfg %+v: %s reported in test file %s:%d", pi, cfg, d.Code, d.File, d.Line), replayFiles(pr, nil))
					break
				}
			}
		}
		// (3) the model
		judgeAbsolute(r, "excluded", pi, pr, fmt.Sprintf("cfg %+v", cfg))
		// (2) neutralised excluded files
		nf, changed := neutralise(pr.files, pr.root, cfg)
		if changed > 0 {
			ggrun.WriteTree(pr.root, nf)
			res2 := ggrun.Run(ggrun.Opts{Dir: pr.root, Args: append(cfgArgs(cfg), "./...")})
			if bad, why := res2.Crashed(false); bad {
				if ok, out := ggrun.CompileCheck(pr.root); !ok {
					base.Harness("neutralised program does not compile: %s", out)
				}
				r.Violate("crash/neutralised/"+crashKey(res2.Stderr), why, replayFiles(pr, nil))
				return
			}
			a, b := ggrun.Set(pr.res.Diags), ggrun.Set(res2.Diags)
			if strings.Join(a, "\n") != strings.Join(b, "\n") {
				am, bm := map[string]bool{}, map[string]bool{}
				for _, x := range a {
					am[x] = true
				}
				for _, x := range b {
					bm[x] = true
				}
				oa, ob := diffSets(am, bm)
				fs := replayFiles(pr, nil)
				for name, c := range nf {
					fs["neutralised/"+name] = c
				}
				r.Violate("excluded/influence-from-excluded-file", fmt.Sprintf("program %d cfg %+v: neutralising annotations/@ignore in %d excluded files changed the diagnostics of other files. only with them: %v ; only without: %v", pi, cfg, changed, headList(oa, 3), headList(ob, 3)), fs)
			}
			r.Eval(1)
		}
		mu.Lock()
		exclFiles += nEx
		mu.Unlock()
		if nEx > 0 && len(pr.res.Diags) > 0 {
			r.Distinct(fmt.Sprintf("%d/%d", pi, ci))
		}
		if pi == 0 && ci%3 == 0 {
			r.Sample(map[string]any{"cfg": fmt.Sprintf("%+v", cfg), "files_excluded": nEx, "diagnostics": len(pr.res.Diags), "excluded_files_with_annotations_neutralised": changed})
		}
	})
	r.Obs("excluded_files_seen", exclFiles)
	r.Obs("diagnostics_located_in_test_files_under_scan_tests", diagsInTests)
	r.Obs("configurations", len(cfgs))
	r.Finish()
}

func headList(xs []string, n int) []string {
	if len(xs) > n {
		return append(append([]string{}, xs[:n]...), fmt.Sprintf("… (%d more)", len(xs)-n))
	}
	return xs
}
