// Package ggrun runs the real gogreement binary (standalone or as vettool) and normalises what it printed.
package ggrun

import (
	"bytes"
	"encoding/json"
	"fmt"
	"os"
	"os/exec"
	"path/filepath"
	"regexp"
	"sort"
	"strconv"
	"strings"
	"sync/atomic"
	"syscall"
	"time"

	"verif/harness/internal/base"
	"verif/harness/internal/gen"
)

var Bin = filepath.Join(base.BuildDir, "gogreement")
var BinRace = filepath.Join(base.BuildDir, "gogreement-race")

type Diag struct {
	PkgID    string
	Analyzer string
	File     string // relative to the module root when inside it
	Line     int
	Col      int
	Code     string // first bracketed code of the header line
	Msg      string
}

type Result struct {
	Diags    []Diag
	Exit     int
	Stdout   string
	Stderr   string
	CPU      time.Duration
	Wall     time.Duration
	TimedOut bool
	Errors   []string // analyzer / package errors found in the JSON tree
}

var scratchN int64

func init() {
	// scratch roots of this process that are still there at exit (early exits skip deferred removals)
	base.Cleanup = append(base.Cleanup, func() {
		ds, _ := filepath.Glob(fmt.Sprintf("/var/tmp/vfw-%d-*", os.Getpid()))
		for _, d := range ds {
			os.RemoveAll(d)
		}
	})
}

// Scratch creates a fresh scratch root (no "testdata", no pool token in the path).
func Scratch() string {
	n := atomic.AddInt64(&scratchN, 1)
	d := fmt.Sprintf("/var/tmp/vfw-%d-%d", os.Getpid(), n)
	os.RemoveAll(d)
	if err := os.MkdirAll(d, 0o755); err != nil {
		base.Harness("cannot create scratch dir: %v", err)
	}
	return d
}

func WriteTree(root string, files map[string]string) {
	for name, content := range files {
		p := filepath.Join(root, name)
		os.MkdirAll(filepath.Dir(p), 0o755)
		if err := os.WriteFile(p, []byte(content), 0o644); err != nil {
			base.Harness("write %s: %v", p, err)
		}
	}
}

type Opts struct {
	Bin     string
	Dir     string
	Args    []string // flags + patterns (without -json)
	Env     []string // extra environment (KEY=VALUE); GOGREEMENT_* of the parent are always cleared
	Text    bool     // text mode instead of -json
	Timeout time.Duration
}

func cleanEnv(extra []string) []string {
	var env []string
	for _, kv := range os.Environ() {
		if strings.HasPrefix(kv, "GOGREEMENT_") || strings.HasPrefix(kv, "GORACE=") {
			continue
		}
		env = append(env, kv)
	}
	return append(env, extra...)
}

var codeRe = regexp.MustCompile(`^error: \[([A-Z]+[0-9]+)\]`)
var posRe = regexp.MustCompile(`^(.*):(\d+):(\d+)$`)
var excerptLine = regexp.MustCompile(`^\s*\d* \| `)

func Run(o Opts) *Result {
	bin := o.Bin
	if bin == "" {
		bin = Bin
	}
	args := []string{}
	if !o.Text {
		args = append(args, "-json")
	}
	args = append(args, o.Args...)
	cmd := exec.Command(bin, args...)
	cmd.Dir = o.Dir
	cmd.Env = cleanEnv(o.Env)
	var so, se bytes.Buffer
	cmd.Stdout, cmd.Stderr = &so, &se
	to := o.Timeout
	if to == 0 {
		to = 10 * time.Minute
	}
	start := time.Now()
	res := &Result{}
	if err := cmd.Start(); err != nil {
		base.Harness("cannot start %s: %v", bin, err)
	}
	done := make(chan error, 1)
	go func() { done <- cmd.Wait() }()
	select {
	case <-done:
	case <-time.After(to):
		cmd.Process.Signal(syscall.SIGQUIT)
		select {
		case <-done:
		case <-time.After(5 * time.Second):
			cmd.Process.Kill()
			<-done
		}
		res.TimedOut = true
	}
	res.Wall = time.Since(start)
	if cmd.ProcessState != nil {
		res.Exit = cmd.ProcessState.ExitCode()
		res.CPU = cmd.ProcessState.UserTime() + cmd.ProcessState.SystemTime()
	}
	res.Stdout, res.Stderr = so.String(), se.String()
	if !o.Text {
		res.Diags, res.Errors = ParseJSON(res.Stdout, o.Dir)
	}
	return res
}

// ParseJSON parses the -json tree(s) printed by the go/analysis drivers (multichecker prints one object; go vet prints one per package).
func ParseJSON(out string, root string) (diags []Diag, errs []string) {
	dec := json.NewDecoder(strings.NewReader(stripVetNoise(out)))
	for {
		var tree map[string]map[string]json.RawMessage
		if err := dec.Decode(&tree); err != nil {
			break
		}
		for pkg, ans := range tree {
			for an, raw := range ans {
				var list []struct {
					Posn    string `json:"posn"`
					Message string `json:"message"`
				}
				if err := json.Unmarshal(raw, &list); err != nil {
					var e struct {
						Error string `json:"error"`
					}
					json.Unmarshal(raw, &e)
					errs = append(errs, pkg+"/"+an+": "+e.Error)
					continue
				}
				for _, d := range list {
					dg := Diag{PkgID: pkg, Analyzer: an, Msg: d.Message}
					if m := posRe.FindStringSubmatch(d.Posn); m != nil {
						dg.File = m[1]
						dg.Line, _ = strconv.Atoi(m[2])
						dg.Col, _ = strconv.Atoi(m[3])
					} else {
						dg.File = d.Posn
					}
					if root != "" {
						if rel, err := filepath.Rel(root, dg.File); err == nil && !strings.HasPrefix(rel, "..") {
							dg.File = rel
						}
					}
					if m := codeRe.FindStringSubmatch(d.Message); m != nil {
						dg.Code = m[1]
					}
					diags = append(diags, dg)
				}
			}
		}
	}
	sort.Slice(diags, func(i, j int) bool {
		a, b := diags[i], diags[j]
		if a.File != b.File {
			return a.File < b.File
		}
		if a.Line != b.Line {
			return a.Line < b.Line
		}
		if a.Col != b.Col {
			return a.Col < b.Col
		}
		if a.Msg != b.Msg {
			return a.Msg < b.Msg
		}
		return a.PkgID < b.PkgID
	})
	return
}

// go vet -json interleaves "# pkg" comment lines with the JSON objects.
func stripVetNoise(s string) string {
	var b strings.Builder
	for _, l := range strings.Split(s, "\n") {
		if strings.HasPrefix(l, "#") {
			continue
		}
		b.WriteString(l)
		b.WriteByte('\n')
	}
	return b.String()
}

// ToObs converts diagnostics to the model's observation records (deduplicating package variants).
func ToObs(ds []Diag) []gen.Obs {
	seen := map[string]bool{}
	var out []gen.Obs
	for _, d := range ds {
		k := fmt.Sprintf("%s:%d:%d|%s|%s", d.File, d.Line, d.Col, d.Analyzer, d.Msg)
		if seen[k] {
			continue
		}
		seen[k] = true
		out = append(out, gen.Obs{File: d.File, Line: d.Line, Col: d.Col, Cat: gen.CategoryOfAnalyzer[d.Analyzer], Code: d.Code, Msg: d.Msg})
	}
	return out
}

// Set returns the normalised (file,line,col,analyzer,message) set as sorted strings.
func Set(ds []Diag) []string {
	seen := map[string]bool{}
	var out []string
	for _, d := range ds {
		k := fmt.Sprintf("%s:%d:%d|%s|%s", d.File, d.Line, d.Col, d.Analyzer, d.Msg)
		if !seen[k] {
			seen[k] = true
			out = append(out, k)
		}
	}
	sort.Strings(out)
	return out
}

// Crashed: the run ended in something other than the tool's diagnostics status.
func (r *Result) Crashed(text bool) (bool, string) {
	if r.TimedOut {
		return true, "timeout"
	}
	// crash markers are looked for on lines of stderr that are not part of a rendered diagnostic (text mode prints
	// source excerpts "NN | <source line>" on stderr, and real source code does contain words like "internal error")
	for _, line := range strings.Split(r.Stderr, "\n") {
		if excerptLine.MatchString(line) {
			continue
		}
		for _, pat := range []string{"panic: ", "fatal error: ", "internal error: ", "SIGSEGV", "[signal ", "goroutine 1 ["} {
			if strings.HasPrefix(line, pat) || (pat == "internal error: " && strings.Contains(line, pat)) || (pat == "SIGSEGV" && strings.Contains(line, pat)) {
				return true, "stderr contains " + strings.TrimSpace(pat)
			}
		}
	}
	if text {
		if r.Exit != 0 && r.Exit != 3 {
			return true, fmt.Sprintf("exit status %d", r.Exit)
		}
	} else if r.Exit != 0 {
		return true, fmt.Sprintf("exit status %d in -json mode", r.Exit)
	}
	if len(r.Errors) > 0 {
		return true, "analyzer error: " + r.Errors[0]
	}
	return false, ""
}

// CompileCheck: does the module compile (incl. test files)? used to tell a harness bug from a tool failure.
func CompileCheck(dir string) (bool, string) {
	cmd := exec.Command("go", "vet", "-asmdecl", "./...")
	cmd.Dir = dir
	cmd.Env = cleanEnv(nil)
	out, err := cmd.CombinedOutput()
	if err != nil {
		return false, string(out)
	}
	cmd = exec.Command("go", "build", "./...")
	cmd.Dir = dir
	cmd.Env = cleanEnv(nil)
	out, err = cmd.CombinedOutput()
	return err == nil, string(out)
}
