// Package base: shared plumbing for every check — tiers, seeds, evidence files,
// known findings, violation/replay bookkeeping, bounded parallelism.
package base

import (
	"encoding/json"
	"fmt"
	"os"
	"path/filepath"
	"runtime"
	"sort"
	"strconv"
	"strings"
	"sync"
	"time"
)

var Root = envOr("VERIF_ROOT", "/verif")

var BuildDir = envOr("VERIF_BUILD", Root+"/.build")

func envOr(k, d string) string {
	if v := os.Getenv(k); v != "" {
		return v
	}
	return d
}

// Run holds the state of one check invocation.
type Run struct {
	ID    string
	Tier  string // quick | thorough
	Seed  int64
	Start time.Time

	mu         sync.Mutex
	Evals      int64
	distinct   map[string]struct{}
	Samples    []any
	Observed   map[string]any
	Assume     []string
	Rule       string
	Exhaustive bool
	viol       []Violation
	knownHit   map[string]int
	inconcl    []string
	findings   []Finding
	counters   map[string]int64
	distinctN  int
}

type Violation struct {
	Key    string // feature-class key used for known-finding attribution
	Detail string
	Replay string
}

type Finding struct {
	Property string `json:"property"`
	Key      string `json:"key"`
	What     string `json:"what"`
	Replay   string `json:"replay,omitempty"`
}

type findingsFile struct {
	Findings []Finding `json:"findings"`
	Fixed    []string  `json:"fixed"`
}

func NewRun(id string) *Run {
	tier := envOr("VERIF_TIER", "quick")
	seed := int64(1)
	if s := os.Getenv("VERIF_SEED"); s != "" {
		if v, err := strconv.ParseInt(strings.TrimSpace(s), 10, 64); err == nil {
			seed = v
		}
	}
	r := &Run{ID: id, Tier: tier, Seed: seed, Start: time.Now(),
		distinct: map[string]struct{}{}, Observed: map[string]any{}, knownHit: map[string]int{}, counters: map[string]int64{}}
	var ff findingsFile
	if b, err := os.ReadFile(filepath.Join(Root, "known_findings.json")); err == nil {
		if err := json.Unmarshal(b, &ff); err != nil {
			Harness("known_findings.json unreadable: %v", err)
		}
	}
	for _, f := range ff.Findings {
		if f.Property == id {
			r.findings = append(r.findings, f)
		}
	}
	return r
}

func (r *Run) Thorough() bool { return r.Tier == "thorough" }

// Pick returns q for the quick tier and t for the thorough tier.
func (r *Run) Pick(q, t int) int {
	if r.Thorough() {
		return t
	}
	return q
}

// Eval counts n oracle decisions.
func (r *Run) Eval(n int) {
	r.mu.Lock()
	r.Evals += int64(n)
	r.mu.Unlock()
}

// Distinct records a distinct non-trivial class.
func (r *Run) Distinct(key string) {
	r.mu.Lock()
	r.distinct[key] = struct{}{}
	r.mu.Unlock()
}

func (r *Run) Count(name string, n int) {
	r.mu.Lock()
	r.counters[name] += int64(n)
	r.mu.Unlock()
}

func (r *Run) Counter(name string) int64 {
	r.mu.Lock()
	defer r.mu.Unlock()
	return r.counters[name]
}

func (r *Run) Sample(s any) {
	r.mu.Lock()
	if len(r.Samples) < 12 {
		r.Samples = append(r.Samples, s)
	}
	r.mu.Unlock()
}

func (r *Run) Obs(k string, v any) {
	r.mu.Lock()
	r.Observed[k] = v
	r.mu.Unlock()
}

func (r *Run) Inconclusive(what string) {
	r.mu.Lock()
	r.inconcl = append(r.inconcl, what)
	r.mu.Unlock()
}

// Violate records a violation. key is the feature class; files (name → content) are written to the replay dir.
func (r *Run) Violate(key, detail string, files map[string]string) {
	r.mu.Lock()
	defer r.mu.Unlock()
	for _, f := range r.findings {
		if f.Key == key {
			r.knownHit[key]++
			return
		}
	}
	n := len(r.viol)
	if n >= 40 { // keep counting, stop writing replays
		r.viol = append(r.viol, Violation{Key: key, Detail: detail})
		return
	}
	dir := filepath.Join(Root, "replays", r.ID, fmt.Sprintf("case%03d", n))
	os.RemoveAll(dir)
	os.MkdirAll(dir, 0o755)
	os.WriteFile(filepath.Join(dir, "DETAIL.txt"), []byte(fmt.Sprintf("property=%s\nkey=%s\nseed=%d tier=%s\n\n%s\n", r.ID, key, r.Seed, r.Tier, detail)), 0o644)
	for name, content := range files {
		p := filepath.Join(dir, name)
		os.MkdirAll(filepath.Dir(p), 0o755)
		os.WriteFile(p, []byte(content), 0o644)
	}
	r.viol = append(r.viol, Violation{Key: key, Detail: detail, Replay: dir})
}

func (r *Run) NViol() int {
	r.mu.Lock()
	defer r.mu.Unlock()
	return len(r.viol)
}

// Finish writes the evidence file, prints verdict lines and exits.
func (r *Run) Finish() {
	r.mu.Lock()
	defer r.mu.Unlock()
	wall := time.Since(r.Start).Seconds()
	if r.Assume == nil {
		r.Assume = []string{"reference oracles written from the property statements and the book (harness/), Go toolchain"}
	}
	if r.Samples == nil {
		r.Samples = []any{}
	}
	cov := map[string]any{
		"evaluations":         r.Evals,
		"distinct_nontrivial": r.nDistinct(),
		"rule":                r.Rule,
		"samples":             r.Samples,
		"exhaustive":          r.Exhaustive,
		"observed":            r.Observed,
		"counters":            r.counters,
	}
	if len(r.inconcl) > 0 {
		cov["inconclusive_cases"] = r.inconcl
	}
	kh := []string{}
	for k, n := range r.knownHit {
		kh = append(kh, fmt.Sprintf("%s x%d", k, n))
	}
	sort.Strings(kh)
	cov["known_findings_hit"] = kh
	ev := map[string]any{
		"property_id": r.ID, "tier": r.Tier, "seed": r.Seed, "level": "exploration",
		"coverage": cov, "assumptions": r.Assume, "wall_s": wall, "violations": len(r.viol),
	}
	b, _ := json.MarshalIndent(ev, "", " ")
	os.MkdirAll(filepath.Join(Root, "evidence"), 0o755)
	if err := os.WriteFile(filepath.Join(Root, "evidence", r.ID+".json"), append(b, '\n'), 0o644); err != nil {
		Harness("cannot write evidence: %v", err)
	}
	for _, f := range r.findings {
		if r.knownHit[f.Key] > 0 {
			fmt.Printf("KNOWN-FINDING: property=%s %s (%s; seen %d times this run)\n", r.ID, f.What, f.Key, r.knownHit[f.Key])
		} else {
			fmt.Printf("NOTE: listed finding not reproduced this run: property=%s %s\n", r.ID, f.Key)
		}
	}
	fmt.Printf("%s tier=%s seed=%d evaluations=%d distinct=%d violations=%d inconclusive=%d wall=%.1fs\n",
		r.ID, r.Tier, r.Seed, r.Evals, r.nDistinct(), len(r.viol), len(r.inconcl), wall)
	if len(r.viol) > 0 {
		kc := map[string]int{}
		for _, v := range r.viol {
			kc[v.Key]++
		}
		ks := []string{}
		for k, n := range kc {
			ks = append(ks, fmt.Sprintf("%s x%d", k, n))
		}
		sort.Strings(ks)
		fmt.Printf("violation keys: %s\n", strings.Join(ks, "; "))
		seen := map[string]bool{}
		for _, v := range r.viol {
			if v.Replay == "" || seen[v.Key] {
				continue
			}
			seen[v.Key] = true
			first := v.Detail
			if i := strings.IndexByte(first, '\n'); i >= 0 {
				first = first[:i]
			}
			fmt.Printf("VIOLATION property=%s replay=%s key=%s :: %s\n", r.ID, v.Replay, v.Key, first)
		}
		runCleanup()
		os.Exit(1)
	}
	if r.Evals == 0 || r.nDistinct() < 2 {
		Harness("%s observed nothing (evaluations=%d distinct=%d)", r.ID, r.Evals, r.nDistinct())
	}
	runCleanup()
	os.Exit(0)
}

// Cleanup functions run before the process exits through Finish or Harness (scratch directories).
var Cleanup []func()

func runCleanup() {
	for _, f := range Cleanup {
		f()
	}
}

// Harness reports an inconclusive outcome (never a verdict) and exits 2.
func Harness(format string, a ...any) {
	fmt.Printf("HARNESS-ERROR "+format+"\n", a...)
	runCleanup()
	os.Exit(2)
}

// Par runs f(i) for i in [0,n) on up to workers goroutines.
func Par(n, workers int, f func(i int)) {
	if workers <= 0 {
		workers = runtime.NumCPU()
	}
	if workers > n {
		workers = n
	}
	var wg sync.WaitGroup
	ch := make(chan int)
	for w := 0; w < workers; w++ {
		wg.Add(1)
		go func() {
			defer wg.Done()
			for i := range ch {
				f(i)
			}
		}()
	}
	for i := 0; i < n; i++ {
		ch <- i
	}
	close(ch)
	wg.Wait()
}

// Rand is a small deterministic PRNG (splitmix64) so results do not depend on math/rand versions.
type Rand struct{ s uint64 }

func NewRand(seed int64, stream string) *Rand {
	h := uint64(seed)*0x9E3779B97F4A7C15 + 0x1234567
	for _, c := range []byte(stream) {
		h = (h ^ uint64(c)) * 0x100000001B3
	}
	return &Rand{s: h}
}

func (r *Rand) U64() uint64 {
	r.s += 0x9E3779B97F4A7C15
	z := r.s
	z = (z ^ (z >> 30)) * 0xBF58476D1CE4E5B9
	z = (z ^ (z >> 27)) * 0x94D049BB133111EB
	return z ^ (z >> 31)
}

func (r *Rand) Intn(n int) int {
	if n <= 0 {
		return 0
	}
	return int(r.U64() % uint64(n))
}

func (r *Rand) Bool() bool { return r.U64()&1 == 1 }

// Chance returns true with probability num/den.
func (r *Rand) Chance(num, den int) bool { return r.Intn(den) < num }

func Pick[T any](r *Rand, xs []T) T { return xs[r.Intn(len(xs))] }

func Shuffle[T any](r *Rand, xs []T) {
	for i := len(xs) - 1; i > 0; i-- {
		j := r.Intn(i + 1)
		xs[i], xs[j] = xs[j], xs[i]
	}
}

// SetDistinctN lets enumerative checks report a measured distinct count without storing millions of keys.
func (r *Run) SetDistinctN(n int) {
	r.mu.Lock()
	defer r.mu.Unlock()
	r.distinct = map[string]struct{}{}
	r.distinctN = n
}

func (r *Run) nDistinct() int {
	if r.distinctN > 0 {
		return r.distinctN + len(r.distinct)
	}
	return len(r.distinct)
}
