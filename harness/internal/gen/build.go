package gen

import (
	"fmt"
	"strings"

	"verif/harness/internal/base"
)

// ---------------------------------------------------------------- small builder helpers

type B struct {
	P  *Prog
	R  *base.Rand
	nv int // local variable counter
	nd int // declaration counter
}

func (b *B) v() string { b.nv++; return fmt.Sprintf("v%d", b.nv) }
func (b *B) d(prefix string) string {
	b.nd++
	return fmt.Sprintf("%s%d", prefix, b.nd)
}

func (b *B) line(text string, uses ...*Use) *Line { return b.P.NewLine(text, uses...) }

// stmt: a one-line statement node
func (b *B) stmt(text string, uses ...*Use) *Node {
	return &Node{Pre: []*Line{b.line(text, uses...)}}
}

func q(p *Pkg) string { return "«" + p.Path + "»." }

func useT(kind UseKind, t *Type, field string) *Use { return &Use{Kind: kind, T: t, Field: field} }
func refT(t *Type, sub string) *Use                 { return &Use{Kind: UTypeRef, T: t, Sub: sub} }

// composite: the type is mentioned inside a composite type ([]T, [N]T, map[K]*T, ...T) of a variable declaration,
// field, parameter/result or composite literal - still a use of the type there.
func composite(u *Use) *Use {
	u.Feature = "inside-composite-type"
	return u
}

func free(u *Use, cats ...string) *Use {
	if u.Free == nil {
		u.Free = map[string]bool{}
	}
	for _, c := range cats {
		u.Free[c] = true
	}
	return u
}

// tl builds a line whose text mentions types through ⟦k⟧ tokens: the k-th %T verb refers to uses[k].
func (b *B) tl(format string, uses ...*Use) *Line {
	// replace successive "%T" by ⟦index of the next UTypeRef use⟧
	idx := []int{}
	for i, u := range uses {
		if u.Kind == UTypeRef {
			idx = append(idx, i)
		}
	}
	n := 0
	for strings.Contains(format, "%T") {
		format = strings.Replace(format, "%T", fmt.Sprintf("⟦%d⟧", idx[n]), 1)
		n++
	}
	return b.line(format, uses...)
}

func (b *B) tstmt(format string, uses ...*Use) *Node {
	return &Node{Pre: []*Line{b.tl(format, uses...)}}
}

// ---------------------------------------------------------------- declaring-package content

var typeNames = []string{"Cfg", "Mock", "Item", "Node", "Conf", "Opts"}

// NewPkg adds a package to the program.
func (b *B) NewPkg(path, dir, name string) *Pkg {
	pk := &Pkg{Path: path, Dir: dir, Name: name}
	b.P.Pkgs = append(b.P.Pkgs, pk)
	return pk
}

func (b *B) NewFile(pk *Pkg, name string) *File {
	f := &File{Pkg: pk, Name: name, Rename: map[string]string{}}
	pk.Files = append(pk.Files, f)
	return f
}

func allowDoc(a *Allow) []string {
	var out []string
	for _, l := range a.Lines {
		if len(l) == 0 {
			out = append(out, " @packageonly")
		} else {
			out = append(out, " @packageonly "+strings.Join(l, ", "))
		}
	}
	return out
}

// TypeDeclNode renders the declaration of t (struct kind: fixed field shape F,G,S,M,A,MS).
func (b *B) TypeDeclNode(t *Type, f *File) *Node {
	t.File = f
	n := &Node{TypeDecl: t}
	n.Doc = append(n.Doc, " "+t.Name+" is a generated type.")
	var anns []string
	if t.Immutable {
		anns = append(anns, " @immutable")
	}
	if t.Ctors != nil {
		txt := t.CtorText
		if txt == "" {
			txt = strings.Join(t.Ctors, ", ")
		}
		anns = append(anns, " @constructor "+txt)
	}
	if t.TestOnly {
		anns = append(anns, " @testonly")
	}
	if t.PkgOnly != nil {
		anns = append(anns, allowDoc(t.PkgOnly)...)
	}
	for _, im := range t.Impl {
		anns = append(anns, " @implements "+im)
	}
	if t.DocLines != nil {
		anns = t.DocLines
	} else {
		if b.R != nil {
			base.Shuffle(b.R, anns)
		}
		t.DocLines = anns
	}
	n.Doc = append(n.Doc, anns...)
	var uses []*Use
	if len(t.Impl) > 0 {
		uses = append(uses, &Use{Kind: UImpl, T: t})
	}
	if t.Kind == "int" {
		n.Pre = []*Line{b.line("type "+t.Name+" int", uses...)}
		return n
	}
	n.Pre = []*Line{b.line("type "+t.Name+" struct {", uses...)}
	if t.Grouped == 0 {
		t.Grouped = 1
		if b.R != nil && len(t.Impl) == 0 && b.R.Chance(1, 4) {
			t.Grouped = 2
		} else if b.R != nil && len(t.Impl) == 0 && b.R.Chance(1, 6) {
			t.Grouped = 3
		}
	}
	if t.Grouped == 3 {
		n.Pre = []*Line{b.line("type "+t.Name+" (struct {", uses...)}
	}
	grouped := t.Grouped == 2
	if grouped {
		n.Pre = []*Line{b.line(t.Name+" struct {", uses...)}
	}
	defer func() {
		if grouped {
			// type ( // doc \n X struct {...} ): the annotation is the doc comment of the spec inside the group
			inner := *n
			inner.TypeDecl = nil
			// the group has a descriptive doc comment of its own: the member's doc comment is the one that counts
			*n = Node{TypeDecl: t, Doc: []string{" Model types of the package (grouped declaration)."}, Pre: []*Line{b.line("type (")}, Kids: []*Node{&inner}, Post: []*Line{b.line(")")}}
		}
	}()
	fld := func(name, typ string) {
		k := &Node{Pre: []*Line{b.line(name + " " + typ)}}
		if t.Mutable[strings.Split(name, ",")[0]] {
			k.Doc = []string{" @mutable"}
		}
		n.Kids = append(n.Kids, k)
	}
	fld("F", "int")
	fld("G", "int")
	fld("S", "[]int")
	fld("M", "map[string]int")
	fld("A", "[4]int")
	fld("PA", "*[4]int") // indexable through Go's automatic dereference
	fld("MS", "[]int")
	fld("P, Q", "int") // two names in one field declaration: one doc comment covers both
	fld("In", "Inner"+t.Name)
	// an embedded plain struct: its fields EX / ES are promoted and act like fields of t
	n.Kids = append(n.Kids, &Node{Pre: []*Line{b.line("Emb" + t.Name)}})
	n.Post = []*Line{b.line("}")}
	if t.Grouped == 3 {
		n.Post = []*Line{b.line("})")}
	}
	return n
}

func fnDoc(fn *Func) []string {
	d := []string{" " + fn.Name + " is generated."}
	if fn.TestOnly {
		d = append(d, " @testonly")
	}
	if fn.PkgOnly != nil {
		d = append(d, allowDoc(fn.PkgOnly)...)
	}
	return d
}

// CtorNode: func NewT() *T { return &T{...} } in T's package.
func (b *B) CtorNode(t *Type, name string, f *File) (*Node, *Func) {
	fn := &Func{Pkg: t.Pkg, Name: name, File: f}
	n := &Node{Fn: fn, Doc: fnDoc(fn)}
	if t.Kind == "int" {
		n.Pre = []*Line{b.tl("func "+name+"() *%T {", refT(t, SubResult))}
		n.Kids = []*Node{
			b.tstmt("v0 := %T(0)", free(refT(t, SubOther), TONL)),
			b.stmt("return &v0"),
		}
		n.Post = []*Line{b.line("}")}
		return n, fn
	}
	n.Pre = []*Line{b.tl("func "+name+"() *%T {", refT(t, SubResult))}
	n.Kids = []*Node{b.tstmt("return &%T{S: make([]int, 4), M: map[string]int{}, MS: make([]int, 4)}", useT(ULit, t, ""), refT(t, SubLit))}
	n.Post = []*Line{b.line("}")}
	return n, fn
}

// ListNode: func ListT() []*T
func (b *B) ListNode(t *Type, f *File) (*Node, *Func) {
	fn := &Func{Pkg: t.Pkg, Name: "List" + t.Name, File: f}
	n := &Node{Fn: fn, Doc: fnDoc(fn)}
	n.Pre = []*Line{b.tl("func "+fn.Name+"() []*%T {", composite(refT(t, SubResult)))}
	n.Kids = []*Node{b.tstmt("return []*%T{"+q(t.Pkg)+"New"+t.Name+"()}", composite(refT(t, SubLit)))}
	n.Post = []*Line{b.line("}")}
	return n, fn
}

// MethodNode: func (r *T) Name() { body }
func (b *B) MethodNode(t *Type, name string, ptr bool, testOnly bool, po *Allow, f *File, body []*Node) (*Node, *Func) {
	fn := &Func{Pkg: t.Pkg, Name: name, Recv: t, TestOnly: testOnly, PkgOnly: po, File: f}
	n := &Node{Fn: fn, Doc: fnDoc(fn)}
	star := ""
	if ptr {
		star = "*"
	}
	n.Pre = []*Line{b.tl("func (r "+star+"%T) "+name+"() {", refT(t, SubRecv))}
	n.Kids = body
	n.Post = []*Line{b.line("}")}
	return n, fn
}

func (b *B) FuncNode(pk *Pkg, name string, testOnly bool, po *Allow, f *File, body []*Node) (*Node, *Func) {
	fn := &Func{Pkg: pk, Name: name, TestOnly: testOnly, PkgOnly: po, File: f}
	n := &Node{Fn: fn, Doc: fnDoc(fn)}
	n.Pre = []*Line{b.line("func " + name + "() {")}
	n.Kids = body
	n.Post = []*Line{b.line("}")}
	return n, fn
}

// ---------------------------------------------------------------- statement templates

// Tmpl: one candidate statement (plus the lines it needs around it) for a target.
type Tmpl struct {
	Name  string
	Cat   string // main analyzer it aims at (others may fire too)
	Kind  string // required type kind ("struct", "int", "" any)
	Decl  bool   // produces a top-level declaration instead of statements
	OnlyD bool   // only meaningful inside the declaring package
	OnlyU bool   // only meaningful in a package that imports the declaring package
	FreeT bool   // contains a TONL-FREE type mention (poisons the once-per-file group)
	NoImp bool   // needs nothing from the declaring package but a value (usable in a file that does not import it)
	Make  func(b *B, t *Type, env *Env) []*Node
}

// Env: what the declaring package offers for t.
type Env struct {
	New       *Func // NewT
	List      *Func
	Helper    *Func // a function of t's package (any annotation mix)
	Reset     *Func // a method of t (any annotation mix), pointer receiver
	Val       *Func // a method with value receiver
	OtherPkg  *Pkg  // another declaring package imported by the using packages (its name can be taken by a local variable)
	OtherFunc *Func // an unannotated function of that package (keeps the import used)
	Pass      *Func // func PassT(x *T) *T of t's package (any annotation mix): used to nest uses inside one expression
	Getter    *Func // non-nil: values are obtained through this package-local helper (the file need not import the type's package)
	AliasM    *Func // a method declared with an alias of t as receiver type: func (r AlT) ViaAlias()  (nil unless hostile)
	ParenM    *Func // a method declared with a parenthesised receiver type: func (r (*T)) ViaParen()
	PtrAliasM *Func // a method declared with an alias of *T as receiver: type PAlT = *T; func (r PAlT) ViaPtrAlias()
}

func callNew(t *Type, env *Env) (string, *Use) {
	if env.Getter != nil {
		return q(env.Getter.Pkg) + env.Getter.Name + "()", &Use{Kind: UFuncRef, Fn: env.Getter, Call: true}
	}
	return q(t.Pkg) + env.New.Name + "()", &Use{Kind: UFuncRef, Fn: env.New, Call: true}
}

var opAssign = []string{"+=", "-=", "*=", "/=", "%=", "&=", "|=", "^=", "<<=", ">>=", "&^="}

func immTemplates() []Tmpl {
	var ts []Tmpl
	acquire := func(b *B, t *Type, env *Env) (string, *Node) {
		x := b.v()
		c, u := callNew(t, env)
		return x, b.stmt(x+" := "+c, u)
	}
	simple := func(name string, kind UseKind, field string, text func(x string) string, fr bool, feat string) Tmpl {
		return Tmpl{Name: name, Cat: IMM, Kind: "struct", NoImp: true, Make: func(b *B, t *Type, env *Env) []*Node {
			x, a := acquire(b, t, env)
			u := useT(kind, t, field)
			if fr {
				free(u, IMM)
			}
			u.Feature = feat
			return []*Node{a, b.stmt(text(x), u), b.stmt("_ = " + x)}
		}}
	}
	ts = append(ts, simple("assign", UFieldAssign, "F", func(x string) string { return x + ".F = 1" }, false, ""))
	ts = append(ts, simple("assign-deref", UFieldAssign, "F", func(x string) string { return "(*" + x + ").F = 1" }, false, ""))
	ts = append(ts, simple("assign-multi", UFieldAssign, "F", func(x string) string { return "_, " + x + ".F = 1, 2" }, false, ""))
	for _, op := range opAssign {
		op := op
		ts = append(ts, simple("op"+op, UFieldOpAssign, "F", func(x string) string { return x + ".F " + op + " 3" }, false, ""))
	}
	ts = append(ts, simple("inc", UFieldIncDec, "F", func(x string) string { return x + ".F++" }, false, ""))
	ts = append(ts, simple("dec", UFieldIncDec, "F", func(x string) string { return x + ".F--" }, false, ""))
	ts = append(ts, simple("idx-slice", UFieldIndexAssign, "S", func(x string) string { return x + ".S[0] = 1" }, false, ""))
	ts = append(ts, simple("idx-map", UFieldIndexAssign, "M", func(x string) string { return x + `.M["k"] = 1` }, false, ""))
	ts = append(ts, simple("idx-array", UFieldIndexAssign, "A", func(x string) string { return x + ".A[1] = 2" }, false, ""))
	ts = append(ts, simple("idx-ptr-array", UFieldIndexAssign, "PA", func(x string) string { return x + ".PA[1] = 2" }, false, "pointer-to-array-field"))
	// @mutable candidates
	ts = append(ts, simple("mut-assign", UFieldAssign, "G", func(x string) string { return x + ".G = 1" }, false, ""))
	ts = append(ts, simple("mut-op", UFieldOpAssign, "G", func(x string) string { return x + ".G += 1" }, false, ""))
	ts = append(ts, simple("mut-inc", UFieldIncDec, "G", func(x string) string { return x + ".G++" }, false, ""))
	ts = append(ts, simple("mut-idx", UFieldIndexAssign, "MS", func(x string) string { return x + ".MS[0] = 1" }, false, ""))
	// reads
	ts = append(ts, simple("read", URead, "F", func(x string) string { return "_ = " + x + ".F" }, false, ""))
	ts = append(ts, simple("read-idx", URead, "S", func(x string) string { return "_ = " + x + ".S[0]" }, false, ""))
	// FREE shapes
	ts = append(ts, simple("free-idx-op", UFieldIndexAssign, "S", func(x string) string { return x + ".S[0] += 1" }, true, ""))
	ts = append(ts, simple("free-idx-inc", UFieldIndexAssign, "S", func(x string) string { return x + ".S[0]++" }, true, ""))
	// parentheses around the written operand do not change what is written
	ts = append(ts, simple("paren-idx", UFieldIndexAssign, "S", func(x string) string { return "(" + x + ".S)[0] = 1" }, false, "paren-target"))
	ts = append(ts, simple("paren-idx-whole", UFieldIndexAssign, "S", func(x string) string { return "(" + x + ".S[0]) = 1" }, false, "paren-target"))
	ts = append(ts, simple("paren-sel", UFieldAssign, "F", func(x string) string { return "(" + x + ".F) = 1" }, false, "paren-target"))
	ts = append(ts, simple("paren-sel-op", UFieldOpAssign, "F", func(x string) string { return "(" + x + ".F) += 1" }, false, "paren-target"))
	ts = append(ts, simple("paren-sel-inc", UFieldIncDec, "F", func(x string) string { return "(" + x + ".F)++" }, false, "paren-target"))
	ts = append(ts, Tmpl{Name: "free-range", Cat: IMM, Kind: "struct", Make: func(b *B, t *Type, env *Env) []*Node {
		x, a := acquire(b, t, env)
		n := &Node{Pre: []*Line{b.line("for "+x+".F = range 2 {", free(useT(UFieldAssign, t, "F"), IMM))}, Post: []*Line{b.line("}")}}
		return []*Node{a, n}
	}})
	// explicitly typed variable (the spelling of the type at the use site matters for C13)
	typed := func(name string, kind UseKind, field string, text func(x string) string) Tmpl {
		return Tmpl{Name: name, Cat: IMM, Kind: "struct", Make: func(b *B, t *Type, env *Env) []*Node {
			x := b.v()
			c, u := callNew(t, env)
			return []*Node{b.tstmt("var "+x+" *%T = "+c, useT(UVarInert, t, ""), refT(t, SubVar), u), b.stmt(text(x), useT(kind, t, field)), b.stmt("_ = " + x)}
		}}
	}
	ts = append(ts, typed("typed-assign", UFieldAssign, "F", func(x string) string { return x + ".F = 1" }))
	ts = append(ts, typed("typed-op", UFieldOpAssign, "F", func(x string) string { return x + ".F -= 1" }))
	ts = append(ts, typed("typed-inc", UFieldIncDec, "F", func(x string) string { return x + ".F++" }))
	ts = append(ts, typed("typed-idx", UFieldIndexAssign, "M", func(x string) string { return x + `.M["a"] = 2` }))
	// value (non-pointer) variable
	ts = append(ts, Tmpl{Name: "assign-value", Cat: IMM, Kind: "struct", Make: func(b *B, t *Type, env *Env) []*Node {
		x := b.v()
		c, u := callNew(t, env)
		return []*Node{b.stmt(x+" := *"+c, u), b.stmt(x+".F = 1", useT(UFieldAssign, t, "F")), b.stmt("_ = " + x)}
	}})
	// element of a slice of pointers
	ts = append(ts, Tmpl{Name: "assign-elem", Cat: IMM, Kind: "struct", Make: func(b *B, t *Type, env *Env) []*Node {
		x := b.v()
		return []*Node{b.stmt(x+" := "+q(t.Pkg)+env.List.Name+"()", &Use{Kind: UFuncRef, Fn: env.List, Call: true}),
			b.stmt(x+"[0].F = 1", useT(UFieldAssign, t, "F"))}
	}})
	// a local variable that has the NAME of a package imported by the file (it shadows the package inside the block)
	ts = append(ts, Tmpl{Name: "local-named-like-imported-package", Cat: IMM, Kind: "struct", OnlyU: true, Make: func(b *B, t *Type, env *Env) []*Node {
		if env.OtherPkg == nil || env.Getter != nil {
			x, a := acquire(b, t, env)
			return []*Node{a, b.stmt(x+".F = 1", useT(UFieldAssign, t, "F")), b.stmt("_ = " + x)}
		}
		nm := "‹" + env.OtherPkg.Path + "›"
		c, u := callNew(t, env)
		blk := &Node{Pre: []*Line{b.line("{")}, Post: []*Line{b.line("}")}}
		blk.Kids = []*Node{b.stmt(nm+" := "+c, u), b.stmt(nm+".F = 1", useT(UFieldAssign, t, "F")), b.stmt(nm+".S[0] = 2", useT(UFieldIndexAssign, t, "S")), b.stmt(nm+".F++", useT(UFieldIncDec, t, "F")), b.stmt(nm+"."+env.Reset.Name+"()", &Use{Kind: UMethodRef, Fn: env.Reset, Call: true}), b.stmt("_ = " + nm)}
		for _, k := range blk.Kids {
			k.Pre[0].Feature = "local-named-like-package"
		}
		return []*Node{b.stmt("_ = "+q(env.OtherPkg)+env.OtherFunc.Name, &Use{Kind: UFuncRef, Fn: env.OtherFunc}), blk}
	}})
	// two field names declared together share one @mutable doc comment
	ts = append(ts, simple("mut-shared-decl-first", UFieldAssign, "P", func(x string) string { return x + ".P = 1" }, false, ""))
	ts = append(ts, simple("mut-shared-decl-second", UFieldIncDec, "Q", func(x string) string { return x + ".Q++" }, false, ""))
	// a struct-typed field: replacing it is a write to T, writing INTO it is a write to the (unannotated) inner type
	ts = append(ts, simple("inner-struct-field-write", URead, "In", func(x string) string { return x + ".In.Z = 1" }, false, ""))
	ts = append(ts, simple("inner-struct-field-inc", URead, "In", func(x string) string { return x + ".In.Z++" }, false, ""))
	// fields promoted from an embedded PLAIN struct act like fields of the (annotated) outer type;
	// spelled through the embedded field's name the write goes into the plain inner value
	ts = append(ts, simple("promoted-from-plain-assign", UFieldAssign, "EX", func(x string) string { return x + ".EX = 1" }, false, "promoted-from-plain-embedded"))
	ts = append(ts, simple("promoted-from-plain-op", UFieldOpAssign, "EX", func(x string) string { return x + ".EX |= 2" }, false, "promoted-from-plain-embedded"))
	ts = append(ts, simple("promoted-from-plain-inc", UFieldIncDec, "EX", func(x string) string { return x + ".EX--" }, false, "promoted-from-plain-embedded"))
	ts = append(ts, simple("promoted-from-plain-idx", UFieldIndexAssign, "ES", func(x string) string { return x + ".ES[0] = 3" }, false, "promoted-from-plain-embedded"))
	ts = append(ts, Tmpl{Name: "explicit-plain-embedded-write", Cat: IMM, Kind: "struct", NoImp: true, Make: func(b *B, t *Type, env *Env) []*Node {
		x, a := acquire(b, t, env)
		return []*Node{a, b.stmt(x+".Emb"+t.Name+".EX = 4", useT(URead, t, "EX")), b.stmt("_ = " + x)}
	}})
	// parenthesised operand, address-of
	ts = append(ts, simple("assign-paren-operand", UFieldAssign, "F", func(x string) string { return "(" + x + ").F = 1" }, false, ""))
	ts = append(ts, Tmpl{Name: "assign-addr-of-value", Cat: IMM, Kind: "struct", NoImp: true, Make: func(b *B, t *Type, env *Env) []*Node {
		x := b.v()
		c, u := callNew(t, env)
		return []*Node{b.stmt(x+" := *"+c, u), b.stmt("(&"+x+").F -= 1", useT(UFieldOpAssign, t, "F")), b.stmt("_ = " + x)}
	}})
	// init statements of if / switch / for, labeled statement
	ts = append(ts, Tmpl{Name: "assign-in-if-init", Cat: IMM, Kind: "struct", NoImp: true, Make: func(b *B, t *Type, env *Env) []*Node {
		x, a := acquire(b, t, env)
		n := &Node{Pre: []*Line{b.line("if "+x+".F = 1; "+x+" != nil {", useT(UFieldAssign, t, "F"))}, Post: []*Line{b.line("}")}}
		return []*Node{a, n}
	}})
	ts = append(ts, Tmpl{Name: "incdec-in-switch-init", Cat: IMM, Kind: "struct", NoImp: true, Make: func(b *B, t *Type, env *Env) []*Node {
		x, a := acquire(b, t, env)
		n := &Node{Pre: []*Line{b.line("switch "+x+".F++; {", useT(UFieldIncDec, t, "F"))}, Post: []*Line{b.line("}")}}
		return []*Node{a, n}
	}})
	ts = append(ts, Tmpl{Name: "for-clauses", Cat: IMM, Kind: "struct", NoImp: true, Make: func(b *B, t *Type, env *Env) []*Node {
		x, a := acquire(b, t, env)
		n := &Node{Pre: []*Line{b.line("for "+x+".F = 0; "+x+".F < 1; "+x+".F += 2 {", useT(UFieldAssign, t, "F"), useT(UFieldOpAssign, t, "F"))}, Post: []*Line{b.line("}")}}
		return []*Node{a, n}
	}})
	ts = append(ts, Tmpl{Name: "labeled-statement", Cat: IMM, Kind: "struct", NoImp: true, Make: func(b *B, t *Type, env *Env) []*Node {
		x, a := acquire(b, t, env)
		lbl := "L" + b.v()
		return []*Node{a, b.stmt("goto " + lbl), b.stmt(lbl+": "+x+".F = 1", useT(UFieldAssign, t, "F"))}
	}})
	// statements that span several lines: the diagnostic is not on the statement's first line
	ts = append(ts, Tmpl{Name: "assign-multi-line", Cat: IMM, Kind: "struct", NoImp: true, Make: func(b *B, t *Type, env *Env) []*Node {
		x, a := acquire(b, t, env)
		n := &Node{Pre: []*Line{b.line("_,"), b.line("\t"+x+".F = 1, 2", useT(UFieldAssign, t, "F"))}}
		return []*Node{a, n}
	}})
	ts = append(ts, Tmpl{Name: "assign-multi-line-two-targets", Cat: IMM, Kind: "struct", NoImp: true, Make: func(b *B, t *Type, env *Env) []*Node {
		x, a := acquire(b, t, env)
		n := &Node{Pre: []*Line{b.line(x+".G,", useT(UFieldAssign, t, "G")), b.line("\t"+x+".F = 1, 2", useT(UFieldAssign, t, "F"))}}
		return []*Node{a, n}
	}})
	// result of a call, type assertion, map element
	ts = append(ts, Tmpl{Name: "assign-call-result", Cat: IMM, Kind: "struct", NoImp: true, Make: func(b *B, t *Type, env *Env) []*Node {
		c, u := callNew(t, env)
		return []*Node{b.stmt(c+".F = 1", u, useT(UFieldAssign, t, "F"))}
	}})
	ts = append(ts, Tmpl{Name: "assign-type-assert", Cat: IMM, Kind: "struct", FreeT: true, Make: func(b *B, t *Type, env *Env) []*Node {
		x := b.v()
		c, u := callNew(t, env)
		return []*Node{b.stmt("var "+x+" any = "+c, u), b.tstmt(x+".(*%T).F = 1", useT(UFieldAssign, t, "F"), free(refT(t, SubOther), TONL))}
	}})
	ts = append(ts, Tmpl{Name: "assign-map-elem", Cat: IMM, Kind: "struct", FreeT: true, Make: func(b *B, t *Type, env *Env) []*Node {
		x := b.v()
		c, u := callNew(t, env)
		return []*Node{b.tstmt(x+" := map[string]*%T{\"k\": "+c+"}", u, composite(refT(t, SubLit))), b.stmt(x+"[\"k\"].F++", useT(UFieldIncDec, t, "F"))}
	}})
	ts = append(ts, Tmpl{Name: "assign-nested-holder", Cat: IMM, Kind: "struct", Make: func(b *B, t *Type, env *Env) []*Node {
		x := b.v()
		c, u := callNew(t, env)
		return []*Node{b.tstmt(x+" := struct{ in *%T }{in: "+c+"}", u, refT(t, SubField)), b.stmt(x+".in.F = 1", useT(UFieldAssign, t, "F")), b.stmt(x+".in.S[1] = 2", useT(UFieldIndexAssign, t, "S"))}
	}})
	// select { case x.F = <-ch: }
	ts = append(ts, Tmpl{Name: "assign-select", Cat: IMM, Kind: "struct", Make: func(b *B, t *Type, env *Env) []*Node {
		x, a := acquire(b, t, env)
		ch := b.v()
		sel := &Node{Pre: []*Line{b.line("select {")}, Post: []*Line{b.line("}")}}
		sel.Kids = []*Node{{Pre: []*Line{b.line("case "+x+".F = <-"+ch+":", useT(UFieldAssign, t, "F"))}}, {Pre: []*Line{b.line("default:")}}}
		return []*Node{a, b.stmt(ch + " := make(chan int, 1)"), b.stmt(ch + " <- 1"), sel}
	}})
	return ts
}

func ctorTemplates() []Tmpl {
	var ts []Tmpl
	one := func(name string, freeT bool, text string, uses func(t *Type) []*Use, post bool) Tmpl {
		return Tmpl{Name: name, Cat: CTOR, FreeT: freeT, Make: func(b *B, t *Type, env *Env) []*Node {
			x := b.v()
			us := uses(t)
			ns := []*Node{b.tstmt(strings.ReplaceAll(text, "$x", x), us...)}
			if post {
				ns = append(ns, b.stmt("_ = "+x))
			}
			return ns
		}}
	}
	structOnly := func(t Tmpl) Tmpl { t.Kind = "struct"; return t }
	ts = append(ts, structOnly(one("lit", false, "$x := %T{}", func(t *Type) []*Use { return []*Use{useT(ULit, t, ""), refT(t, SubLit)} }, true)))
	ts = append(ts, structOnly(one("lit-field", false, "$x := %T{F: 1}", func(t *Type) []*Use { return []*Use{useT(ULit, t, ""), refT(t, SubLit)} }, true)))
	ts = append(ts, structOnly(one("lit-addr", false, "$x := &%T{}", func(t *Type) []*Use { return []*Use{useT(ULit, t, ""), refT(t, SubLit)} }, true)))
	ts = append(ts, structOnly(one("lit-elided-slice", false, "$x := []%T{{}}", func(t *Type) []*Use { return []*Use{useT(ULit, t, ""), refT(t, SubLit)} }, true)))
	ts = append(ts, structOnly(one("lit-elided-ptr", false, "$x := []*%T{{}}", func(t *Type) []*Use { return []*Use{useT(ULit, t, ""), refT(t, SubLit)} }, true)))
	ts = append(ts, structOnly(one("lit-elided-map", false, `$x := map[string]%T{"k": {}}`, func(t *Type) []*Use { return []*Use{useT(ULit, t, ""), refT(t, SubLit)} }, true)))
	ts = append(ts, one("new", true, "$x := new(%T)", func(t *Type) []*Use { return []*Use{useT(UNew, t, ""), free(refT(t, SubOther), TONL)} }, true))
	ts = append(ts, one("var", false, "var $x %T", func(t *Type) []*Use { return []*Use{useT(UVarZero, t, ""), refT(t, SubVar)} }, true))
	ts = append(ts, Tmpl{Name: "var2", Cat: CTOR, Make: func(b *B, t *Type, env *Env) []*Node {
		x, y := b.v(), b.v()
		return []*Node{b.tstmt("var "+x+", "+y+" %T", useT(UVarZero, t, ""), refT(t, SubVar)), b.stmt("_, _ = " + x + ", " + y)}
	}})
	// a var group in which an initialised spec precedes the zero-valued one (every spec is judged on its own)
	ts = append(ts, Tmpl{Name: "var-group-init-then-zero", Cat: CTOR, Make: func(b *B, t *Type, env *Env) []*Node {
		x, y, z := b.v(), b.v(), b.v()
		zl := b.tl(y+" %T", useT(UVarZero, t, ""), refT(t, SubVar))
		zl.Feature = "var-group-after-initialised-spec"
		zl2 := b.tl(z+" *%T", useT(UVarInert, t, ""), refT(t, SubVar))
		n := &Node{Pre: []*Line{b.line("var (")}, Kids: []*Node{b.stmt(x + " = 30"), {Pre: []*Line{zl}}, {Pre: []*Line{zl2}}}, Post: []*Line{b.line(")")}}
		return []*Node{n, b.stmt("_, _, _ = " + x + ", " + y + ", " + z)}
	}})
	// more names than values: one comma-ok / multi-value initialiser for all of them (an initialised spec, not a zero value)
	ts = append(ts, Tmpl{Name: "var-names-outnumber-values", Cat: CTOR, Make: func(b *B, t *Type, env *Env) []*Node {
		x, y := b.v(), b.v()
		l := b.tl("var "+x+", "+y+" = map[string]%T{}[\"k\"]", useT(UVarInert, t, ""), composite(refT(t, SubLit)))
		l.Feature = "var-names-outnumber-values"
		return []*Node{{Pre: []*Line{l}}, b.stmt("_, _ = " + x + ", " + y)}
	}})
	ts = append(ts, one("var-ptr", false, "var $x *%T", func(t *Type) []*Use { return []*Use{useT(UVarInert, t, ""), refT(t, SubVar)} }, true))
	ts = append(ts, one("var-blank", false, "var _ %T", func(t *Type) []*Use { return []*Use{useT(UVarInert, t, ""), refT(t, SubVar)} }, false))
	ts = append(ts, Tmpl{Name: "var-init-call", Cat: CTOR, Make: func(b *B, t *Type, env *Env) []*Node {
		x := b.v()
		c, u := callNew(t, env)
		return []*Node{b.stmt("var "+x+" = "+c, u, useT(UVarInert, t, "")), b.stmt("_ = " + x)}
	}})
	ts = append(ts, structOnly(one("var-init-lit", false, "var $x %T = %T{}", func(t *Type) []*Use {
		return []*Use{useT(UVarInert, t, ""), refT(t, SubVar), useT(ULit, t, ""), refT(t, SubLit)}
	}, true)))
	ts = append(ts, Tmpl{Name: "lit-multi-line", Cat: CTOR, Kind: "struct", Make: func(b *B, t *Type, env *Env) []*Node {
		x := b.v()
		n := &Node{Pre: []*Line{b.tl(x+" := &%T{", useT(ULit, t, ""), refT(t, SubLit)), b.line("\tF: 1,"), b.line("}")}}
		return []*Node{n, b.stmt("_ = " + x)}
	}})
	ts = append(ts, Tmpl{Name: "lit-multi-line-nested", Cat: CTOR, Kind: "struct", Make: func(b *B, t *Type, env *Env) []*Node {
		x := b.v()
		n := &Node{Pre: []*Line{b.line(x + " := []any{"), b.tl("\t%T{},", useT(ULit, t, ""), refT(t, SubLit)), b.tl("\tnew(%T),", useT(UNew, t, ""), free(refT(t, SubOther), TONL)), b.line("}")}}
		return []*Node{n, b.stmt("_ = " + x)}
	}})
	// elided element literals on lines of their own: when the first line is suppressed, the once-per-file report moves here
	ts = append(ts, Tmpl{Name: "lit-multi-line-elided", Cat: TONL, Kind: "struct", Make: func(b *B, t *Type, env *Env) []*Node {
		x := b.v()
		el := func(txt string) *Line {
			l := b.tl(txt, useT(ULit, t, ""), free(refT(t, SubLit), PKGO))
			l.Feature = "multi-line-elided-literal"
			return l
		}
		first := b.tl(x+" := []%T{", composite(refT(t, SubLit)))
		first.Feature = "multi-line-elided-literal"
		n := &Node{Pre: []*Line{first, el("\t{},"), el("\t{F: 1},"), b.line("}")}}
		return []*Node{n, b.stmt("_ = " + x)}
	}})
	// FREE for CTOR
	ts = append(ts, one("new-paren-callee", true, "$x := (new)(%T)", func(t *Type) []*Use {
		u := useT(UNew, t, "")
		u.Feature = "paren-new"
		return []*Use{u, free(refT(t, SubOther), TONL)}
	}, true))
	// a local function that shadows the builtin: new(x) allocates nothing
	ts = append(ts, Tmpl{Name: "shadowed-new", Cat: CTOR, Kind: "struct", NoImp: true, Make: func(b *B, t *Type, env *Env) []*Node {
		x := b.v()
		c, u := callNew(t, env)
		in := useT(UVarInert, t, "")
		in.Feature = "shadowed-new"
		blk := &Node{Pre: []*Line{b.line("{")}, Kids: []*Node{b.stmt("new := func(_ any) {}"), b.stmt("new("+x+")", in)}, Post: []*Line{b.line("}")}}
		return []*Node{b.stmt(x+" := "+c, u), blk}
	}})
	ts = append(ts, one("free-new-ptr", true, "$x := new(*%T)", func(t *Type) []*Use { return []*Use{free(useT(UNew, t, ""), CTOR), free(refT(t, SubOther), TONL)} }, true))
	ts = append(ts, one("free-make", true, "$x := make([]%T, 1)", func(t *Type) []*Use { return []*Use{free(refT(t, SubOther), TONL)} }, true))
	ts = append(ts, one("lit-array-of", false, "$x := [2]%T{}", func(t *Type) []*Use { return []*Use{composite(refT(t, SubLit))} }, true))
	return ts
}

func useTemplates() []Tmpl {
	var ts []Tmpl
	fcall := func(name, pre string) Tmpl {
		return Tmpl{Name: name, Cat: TONL, Make: func(b *B, t *Type, env *Env) []*Node {
			return []*Node{b.stmt(pre+q(t.Pkg)+env.Helper.Name+"()", &Use{Kind: UFuncRef, Fn: env.Helper, Call: true})}
		}}
	}
	ts = append(ts, fcall("func-call", ""), fcall("func-defer", "defer "), fcall("func-go", "go "))
	ts = append(ts, Tmpl{Name: "func-value", Cat: PKGO, Make: func(b *B, t *Type, env *Env) []*Node {
		x := b.v()
		return []*Node{b.stmt(x+" := "+q(t.Pkg)+env.Helper.Name, &Use{Kind: UFuncRef, Fn: env.Helper}), b.stmt(x + "()")}
	}})
	ts = append(ts, Tmpl{Name: "method-call", Cat: TONL, NoImp: true, Make: func(b *B, t *Type, env *Env) []*Node {
		x := b.v()
		c, u := callNew(t, env)
		return []*Node{b.stmt(x+" := "+c, u), b.stmt(x+"."+env.Reset.Name+"()", &Use{Kind: UMethodRef, Fn: env.Reset, Call: true})}
	}})
	ts = append(ts, Tmpl{Name: "method-call-value-recv", Cat: TONL, NoImp: true, Make: func(b *B, t *Type, env *Env) []*Node {
		x := b.v()
		c, u := callNew(t, env)
		return []*Node{b.stmt(x+" := *"+c, u), b.stmt(x+"."+env.Val.Name+"()", &Use{Kind: UMethodRef, Fn: env.Val, Call: true})}
	}})
	ts = append(ts, Tmpl{Name: "method-value", Cat: PKGO, NoImp: true, Make: func(b *B, t *Type, env *Env) []*Node {
		x, y := b.v(), b.v()
		c, u := callNew(t, env)
		return []*Node{b.stmt(x+" := "+c, u), b.stmt(y+" := "+x+"."+env.Reset.Name, &Use{Kind: UMethodRef, Fn: env.Reset}), b.stmt(y + "()")}
	}})
	// methods whose receiver type is spelled through an alias / in parentheses are methods of t all the same
	ts = append(ts, Tmpl{Name: "method-call-odd-receiver-spelling", Cat: TONL, NoImp: true, Make: func(b *B, t *Type, env *Env) []*Node {
		x := b.v()
		c, u := callNew(t, env)
		ns := []*Node{b.stmt(x+" := "+c, u)}
		if env.AliasM != nil {
			ns = append(ns, b.stmt(x+"."+env.AliasM.Name+"()", &Use{Kind: UMethodRef, Fn: env.AliasM, Call: true, Feature: "alias-receiver-method"}))
		}
		if env.ParenM != nil {
			ns = append(ns, b.stmt(x+"."+env.ParenM.Name+"()", &Use{Kind: UMethodRef, Fn: env.ParenM, Call: true, Feature: "paren-receiver-method"}))
		}
		if env.PtrAliasM != nil {
			ns = append(ns, b.stmt(x+"."+env.PtrAliasM.Name+"()", &Use{Kind: UMethodRef, Fn: env.PtrAliasM, Call: true, Feature: "pointer-alias-receiver-method"}))
		}
		return append(ns, b.stmt("_ = "+x))
	}})
	// a parenthesised callee is still a call of the function / method
	ts = append(ts, Tmpl{Name: "paren-callee-call", Cat: TONL, Make: func(b *B, t *Type, env *Env) []*Node {
		x := b.v()
		c, u := callNew(t, env)
		return []*Node{b.stmt(x+" := "+c, u),
			b.stmt("("+x+"."+env.Reset.Name+")()", &Use{Kind: UMethodRef, Fn: env.Reset, Call: true, Feature: "paren-callee"}),
			b.stmt("("+q(t.Pkg)+env.Helper.Name+")()", &Use{Kind: UFuncRef, Fn: env.Helper, Call: true, Feature: "paren-callee"})}
	}})
	// method expressions: (*T).M(x) and T.M(*x) call the method just like x.M()
	ts = append(ts, Tmpl{Name: "method-expression-call", Cat: TONL, Make: func(b *B, t *Type, env *Env) []*Node {
		x := b.v()
		c, u := callNew(t, env)
		return []*Node{b.stmt(x+" := "+c, u),
			b.tstmt("(*%T)."+env.Reset.Name+"("+x+")", free(refT(t, SubOther), TONL), &Use{Kind: UMethodRef, Fn: env.Reset, Call: true, Feature: "method-expression"}),
			b.tstmt("%T."+env.Val.Name+"(*"+x+")", free(refT(t, SubOther), TONL), &Use{Kind: UMethodRef, Fn: env.Val, Call: true, Feature: "method-expression"})}
	}})
	// several annotated items nested in ONE expression (a suppressed outer use must not hide the inner ones)
	ts = append(ts, Tmpl{Name: "nested-call-chain", Cat: TONL, Kind: "struct", NoImp: true, Make: func(b *B, t *Type, env *Env) []*Node {
		c, u := callNew(t, env)
		pf := q(t.Pkg) + env.Pass.Name
		return []*Node{b.stmt(pf+"("+pf+"("+c+"))."+env.Reset.Name+"()", u, &Use{Kind: UFuncRef, Fn: env.Pass, Call: true}, &Use{Kind: UMethodRef, Fn: env.Reset, Call: true})}
	}})
	ts = append(ts, Tmpl{Name: "nested-literal-argument", Cat: TONL, Kind: "struct", Make: func(b *B, t *Type, env *Env) []*Node {
		pf := q(t.Pkg) + env.Pass.Name
		return []*Node{b.tstmt("_ = "+pf+"(&%T{})."+env.Val.Name, &Use{Kind: UFuncRef, Fn: env.Pass, Call: true}, useT(ULit, t, ""), refT(t, SubLit), &Use{Kind: UMethodRef, Fn: env.Val})}
	}})
	ts = append(ts, Tmpl{Name: "nested-helper-in-argument", Cat: TONL, Kind: "struct", NoImp: true, Make: func(b *B, t *Type, env *Env) []*Node {
		c, u := callNew(t, env)
		pf := q(t.Pkg) + env.Pass.Name
		x := b.v()
		return []*Node{b.stmt(x + " := func(p any, _ ...any) {}"), b.stmt(x+"("+pf+"("+c+"), "+q(t.Pkg)+env.Helper.Name+", "+c+"."+env.Reset.Name+")", u, &Use{Kind: UFuncRef, Fn: env.Pass, Call: true}, &Use{Kind: UFuncRef, Fn: env.Helper}, &Use{Kind: UMethodRef, Fn: env.Reset})}
	}})
	ts = append(ts, Tmpl{Name: "nested-multi-line-call", Cat: TONL, Kind: "struct", NoImp: true, Make: func(b *B, t *Type, env *Env) []*Node {
		c, u := callNew(t, env)
		pf := q(t.Pkg) + env.Pass.Name
		// a selector expression is positioned at the start of its operand: the method value belongs to the first line
		n := &Node{Pre: []*Line{b.line("_ = "+pf+"(", &Use{Kind: UFuncRef, Fn: env.Pass, Call: true}, &Use{Kind: UMethodRef, Fn: env.Reset}), b.line("\t"+pf+"(", &Use{Kind: UFuncRef, Fn: env.Pass, Call: true}), b.line("\t\t"+c+",", u), b.line("\t),"), b.line(")." + env.Reset.Name)}}
		return []*Node{n}
	}})
	// methods reached through struct embedding (promoted): still a call of / a reference to the annotated method
	ts = append(ts, Tmpl{Name: "promoted-method-through-embedding", Cat: PKGO, Kind: "struct", Decl: true, OnlyU: true, Make: func(b *B, t *Type, env *Env) []*Node {
		on, opn := b.d("outer"), b.d("outerp")
		d1 := &Node{Pre: []*Line{b.line("type " + on + " struct {")}, Kids: []*Node{b.tstmt("%T", refT(t, SubField))}, Post: []*Line{b.line("}")}}
		d2 := &Node{Pre: []*Line{b.line("type " + opn + " struct {")}, Kids: []*Node{b.tstmt("*%T", refT(t, SubField))}, Post: []*Line{b.line("}")}}
		fn := &Node{Fn: &Func{Name: b.d("viaEmbed")}}
		fn.Pre = []*Line{b.line("func " + fn.Fn.Name + "() {")}
		c, u := callNew(t, env)
		x, y, z := b.v(), b.v(), b.v()
		fn.Kids = []*Node{
			b.stmt("var " + x + " " + on),
			b.stmt(x+"."+env.Reset.Name+"()", &Use{Kind: UMethodRef, Fn: env.Reset, Call: true, Feature: "promoted-method"}),
			b.stmt(x+"."+env.Val.Name+"()", &Use{Kind: UMethodRef, Fn: env.Val, Call: true, Feature: "promoted-method"}),
			b.stmt(y+" := "+opn+"{"+c+"}", u),
			b.stmt(y+"."+env.Reset.Name+"()", &Use{Kind: UMethodRef, Fn: env.Reset, Call: true, Feature: "promoted-method"}),
			b.stmt(z+" := "+y+"."+env.Val.Name, &Use{Kind: UMethodRef, Fn: env.Val, Feature: "promoted-method"}),
			b.stmt(z + "()"),
			b.stmt("(*"+on+")."+env.Reset.Name+"(&"+x+")", &Use{Kind: UMethodRef, Fn: env.Reset, Call: true, Feature: "promoted-method-expression"}),
			b.stmt(on+"."+env.Val.Name+"("+x+")", &Use{Kind: UMethodRef, Fn: env.Val, Call: true, Feature: "promoted-method-expression"}),
		}
		fn.Post = []*Line{b.line("}")}
		return []*Node{d1, d2, fn}
	}})
	// fields reached through struct embedding (promoted): "x.F = 1" stands for "x.T.F = 1"
	ts = append(ts, Tmpl{Name: "promoted-field-through-embedding", Cat: IMM, Kind: "struct", Decl: true, Make: func(b *B, t *Type, env *Env) []*Node {
		on, opn := b.d("holder"), b.d("holderp")
		o2, o3 := b.d("holder2"), b.d("holder3")
		z, w := b.v(), b.v()
		d1 := &Node{Pre: []*Line{b.line("type " + on + " struct {")}, Kids: []*Node{b.tstmt("%T", refT(t, SubField))}, Post: []*Line{b.line("}")}}
		d2 := &Node{Pre: []*Line{b.line("type " + opn + " struct {")}, Kids: []*Node{b.tstmt("*%T", refT(t, SubField))}, Post: []*Line{b.line("}")}}
		fn := &Node{Fn: &Func{Name: b.d("viaHolder")}}
		fn.Pre = []*Line{b.line("func " + fn.Fn.Name + "() {")}
		// the function is a listed constructor of the HOLDER types: that exempts nothing of the embedded type
		d1.Doc = []string{" " + on + " holds a value.", " @constructor " + fn.Fn.Name}
		d2.Doc = []string{" " + opn + " holds a pointer.", " @constructor " + fn.Fn.Name}
		c, u := callNew(t, env)
		x, y := b.v(), b.v()
		pf := func(k UseKind, f string) *Use {
			w := useT(k, t, f)
			w.Feature = "promoted-field"
			return w
		}
		fn.Kids = []*Node{
			b.stmt("var " + x + " " + on),
			b.stmt(x+".F = 1", pf(UFieldAssign, "F")),
			b.stmt(x+".F++", pf(UFieldIncDec, "F")),
			b.stmt(x+".G = 2", pf(UFieldAssign, "G")),
			b.stmt(y+" := "+opn+"{"+c+"}", u),
			b.stmt(y+".F -= 3", pf(UFieldOpAssign, "F")),
			b.stmt(y+".S[0] = 4", pf(UFieldIndexAssign, "S")),
			b.stmt(y+".MS[0] = 5", pf(UFieldIndexAssign, "MS")),
			b.stmt("_ = " + x + ".F"),
			// two levels: a pointer hop that is not the last one, and pointers on both levels
			b.stmt("var " + z + " " + o2),
			b.stmt(z+".F = 6", pf(UFieldAssign, "F")),
			b.stmt(z+".F++", pf(UFieldIncDec, "F")),
			b.stmt(z+".G = 7", pf(UFieldAssign, "G")),
			b.stmt("var " + w + " " + o3),
			b.stmt(w+".F *= 8", pf(UFieldOpAssign, "F")),
			b.stmt(w+".S[1] = 9", pf(UFieldIndexAssign, "S")),
		}
		fn.Post = []*Line{b.line("}")}
		d3 := &Node{Pre: []*Line{b.line("type " + o2 + " struct{ *" + on + " }")}}
		d4 := &Node{Pre: []*Line{b.line("type " + o3 + " struct{ *" + opn + " }")}}
		out := []*Node{d1, d2, d3, d4, fn}
		if t.Immutable {
			// an @immutable holder: the embedded type's @mutable marks stay with the promoted fields
			oi, q := b.d("holderi"), b.v()
			d5 := &Node{Pre: []*Line{b.line("type " + oi + " struct {")}, Kids: []*Node{b.tstmt("%T", refT(t, SubField))}, Post: []*Line{b.line("}")}}
			d5.Doc = []string{" " + oi + " embeds an immutable value.", " @immutable"}
			pi := func(k UseKind, f string) *Use {
				w := useT(k, t, f)
				w.Feature = "promoted-field-immutable-holder"
				w.ImmHolder = true
				return w
			}
			fn.Kids = append(fn.Kids,
				b.stmt("var "+q+" "+oi),
				b.stmt(q+".G = 10", pi(UFieldAssign, "G")),
				b.stmt(q+".MS[0] = 11", pi(UFieldIndexAssign, "MS")),
				b.stmt(q+".G++", pi(UFieldIncDec, "G")),
				b.stmt(q+".F = 12", pi(UFieldAssign, "F")),
			)
			out = append(out, d5)
		}
		return out
	}})
	// constants are not variable declarations: an iota group repeats the type implicitly (ValueSpec without type and values)
	ts = append(ts, Tmpl{Name: "const-iota-group", Cat: CTOR, Kind: "int", Decl: true, Make: func(b *B, t *Type, env *Env) []*Node {
		inert := func() *Use {
			u := useT(UVarInert, t, "")
			u.Feature = "const-iota-group"
			return u
		}
		grp := func(a, c, d string) *Node {
			return &Node{Pre: []*Line{b.line("const (")}, Kids: []*Node{
				b.tstmt(a+" %T = iota", free(refT(t, SubOther), TONL), inert()),
				b.stmt(c, inert()),
				b.stmt(d, inert()),
			}, Post: []*Line{b.line(")")}}
		}
		top := grp(b.d("kA"), b.d("kB"), b.d("kC"))
		fn := &Node{Fn: &Func{Name: b.d("localConsts")}}
		fn.Pre = []*Line{b.line("func " + fn.Fn.Name + "() {")}
		x, y, z := b.v(), b.v(), b.v()
		fn.Kids = []*Node{grp(x, y, z), b.stmt("_, _, _ = " + x + ", " + y + ", " + z)}
		fn.Post = []*Line{b.line("}")}
		return []*Node{top, fn}
	}})
	// type mentions in declarations
	ts = append(ts, Tmpl{Name: "decl-param", Cat: TONL, Decl: true, Make: func(b *B, t *Type, env *Env) []*Node {
		n := &Node{Fn: &Func{Name: b.d("fp")}}
		n.Pre = []*Line{b.tl("func "+n.Fn.Name+"(v1 %T) {", refT(t, SubParam))}
		n.Post = []*Line{b.line("}")}
		return []*Node{n}
	}})
	ts = append(ts, Tmpl{Name: "decl-param-ptr", Cat: TONL, Decl: true, Make: func(b *B, t *Type, env *Env) []*Node {
		n := &Node{Fn: &Func{Name: b.d("fq")}}
		n.Pre = []*Line{b.tl("func "+n.Fn.Name+"(v1 *%T) {", refT(t, SubParam))}
		n.Post = []*Line{b.line("}")}
		return []*Node{n}
	}})
	ts = append(ts, Tmpl{Name: "decl-result", Cat: TONL, Decl: true, Make: func(b *B, t *Type, env *Env) []*Node {
		n := &Node{Fn: &Func{Name: b.d("fr")}}
		n.Pre = []*Line{b.tl("func "+n.Fn.Name+"() (v1 *%T) {", refT(t, SubResult))}
		n.Kids = []*Node{b.stmt("return nil")}
		n.Post = []*Line{b.line("}")}
		return []*Node{n}
	}})
	ts = append(ts, Tmpl{Name: "decl-field", Cat: TONL, Decl: true, Make: func(b *B, t *Type, env *Env) []*Node {
		n := &Node{}
		n.Pre = []*Line{b.line("type " + b.d("hs") + " struct {")}
		n.Kids = []*Node{b.tstmt("f %T", refT(t, SubField))}
		n.Post = []*Line{b.line("}")}
		return []*Node{n}
	}})
	ts = append(ts, Tmpl{Name: "decl-iface-param", Cat: TONL, Decl: true, Make: func(b *B, t *Type, env *Env) []*Node {
		n := &Node{}
		n.Pre = []*Line{b.line("type " + b.d("hi") + " interface {")}
		n.Kids = []*Node{b.tstmt("M(v1 %T)", refT(t, SubParam))}
		n.Post = []*Line{b.line("}")}
		return []*Node{n}
	}})
	ts = append(ts, Tmpl{Name: "funclit-param", Cat: TONL, Make: func(b *B, t *Type, env *Env) []*Node {
		x := b.v()
		return []*Node{b.tstmt(x+" := func(v1 %T) {}", refT(t, SubParam)), b.stmt("_ = " + x)}
	}})
	// FREE for TONL (PKGO still demands): conversion-like mentions
	ts = append(ts, Tmpl{Name: "decl-composite-types", Cat: TONL, Decl: true, Make: func(b *B, t *Type, env *Env) []*Node {
		h := &Node{Pre: []*Line{b.line("type " + b.d("holdc") + " struct {")}, Kids: []*Node{b.tstmt("byName map[string]*%T", composite(refT(t, SubField)))}, Post: []*Line{b.line("}")}}
		hk := &Node{Pre: []*Line{b.line("type " + b.d("holdk") + " struct {")}, Kids: []*Node{b.tstmt("seen map[*%T]bool", composite(refT(t, SubField)))}, Post: []*Line{b.line("}")}}
		fk := &Node{Fn: &Func{Name: b.d("fmapkey")}}
		fk.Pre = []*Line{b.tl("func "+fk.Fn.Name+"(v1 []map[*%T]int) {", composite(refT(t, SubParam)))}
		fk.Post = []*Line{b.line("}")}
		f1 := &Node{Fn: &Func{Name: b.d("fvariadic")}}
		f1.Pre = []*Line{b.tl("func "+f1.Fn.Name+"(v1 ...%T) {", composite(refT(t, SubParam)))}
		f1.Post = []*Line{b.line("}")}
		f2 := &Node{Fn: &Func{Name: b.d("fchan")}}
		f2.Pre = []*Line{b.tl("func "+f2.Fn.Name+"() chan %T {", composite(refT(t, SubResult)))}
		f2.Kids = []*Node{b.stmt("return nil")}
		f2.Post = []*Line{b.line("}")}
		f3 := &Node{Fn: &Func{Name: b.d("ffunc")}}
		f3.Pre = []*Line{b.tl("func "+f3.Fn.Name+"(v1 func(**%T) int) {", composite(refT(t, SubParam)))}
		f3.Post = []*Line{b.line("}")}
		return []*Node{h, f1, f2, f3, hk, fk}
	}})
	ts = append(ts, Tmpl{Name: "var-slice-of", Cat: PKGO, Make: func(b *B, t *Type, env *Env) []*Node {
		x := b.v()
		return []*Node{b.tstmt("var "+x+" []%T", composite(refT(t, SubVar))), b.stmt("_ = " + x)}
	}})
	ts = append(ts, Tmpl{Name: "free-assert", Cat: PKGO, FreeT: true, Make: func(b *B, t *Type, env *Env) []*Node {
		x := b.v()
		return []*Node{b.stmt("var " + x + " any"), b.tstmt("_, _ = "+x+".(*%T)", free(refT(t, SubOther), TONL))}
	}})
	return ts
}

// AllTemplates in a fixed order.
func AllTemplates() []Tmpl {
	var ts []Tmpl
	ts = append(ts, immTemplates()...)
	ts = append(ts, ctorTemplates()...)
	ts = append(ts, useTemplates()...)
	return ts
}

// ---------------------------------------------------------------- contexts

type CtxKind struct {
	Name    string
	Feature string
	Wrap    func(b *B, body []*Node) []*Node // wraps statements inside a function body
}

func block(b *B, pre string, post string, body []*Node) *Node {
	return &Node{Pre: []*Line{b.line(pre)}, Kids: body, Post: []*Line{b.line(post)}}
}

func Nestings() []CtxKind {
	return []CtxKind{
		{Name: "flat", Wrap: func(b *B, body []*Node) []*Node { return body }},
		{Name: "if", Wrap: func(b *B, body []*Node) []*Node { return []*Node{block(b, "if true {", "}", body)} }},
		{Name: "for", Wrap: func(b *B, body []*Node) []*Node {
			return []*Node{block(b, "for i := 0; i < 1; i++ {", "}", body)}
		}},
		{Name: "switch", Wrap: func(b *B, body []*Node) []*Node {
			sw := &Node{Pre: []*Line{b.line("switch {")}, Post: []*Line{b.line("}")}}
			sw.Kids = []*Node{{Pre: []*Line{b.line("case true:")}, Kids: body}}
			return []*Node{sw}
		}},
		{Name: "select", Wrap: func(b *B, body []*Node) []*Node {
			sw := &Node{Pre: []*Line{b.line("select {")}, Post: []*Line{b.line("}")}}
			sw.Kids = []*Node{{Pre: []*Line{b.line("default:")}, Kids: body}}
			return []*Node{sw}
		}},
		{Name: "closure", Wrap: func(b *B, body []*Node) []*Node { return []*Node{block(b, "func() {", "}()", body)} }},
		{Name: "defer", Wrap: func(b *B, body []*Node) []*Node { return []*Node{block(b, "defer func() {", "}()", body)} }},
		{Name: "go", Wrap: func(b *B, body []*Node) []*Node { return []*Node{block(b, "go func() {", "}()", body)} }},
		{Name: "assigned-closure", Wrap: func(b *B, body []*Node) []*Node {
			x := b.v()
			return []*Node{block(b, x+" := func() {", "}", body), b.stmt(x + "()")}
		}},
		{Name: "reassigned-closure", Wrap: func(b *B, body []*Node) []*Node {
			x := b.v()
			return []*Node{b.stmt("var " + x + " func(int)"), block(b, x+" = func(int) {", "}", body), b.stmt(x + "(1)")}
		}},
		{Name: "closure-argument", Wrap: func(b *B, body []*Node) []*Node {
			return []*Node{block(b, "func(f func()) { f() }(func() {", "})", body)}
		}},
		{Name: "if-closure-for", Wrap: func(b *B, body []*Node) []*Node {
			return []*Node{block(b, "if true {", "}", []*Node{block(b, "func() {", "}()", []*Node{block(b, "for i := 0; i < 1; i++ {", "}", body)})})}
		}},
	}
}
