package gen

import (
	"fmt"
	"strings"

	"verif/harness/internal/base"
)

// Spec controls one generated program.
type Spec struct {
	Seed        int64
	Index       int
	Hostile     bool // include hostile contexts (package-level initialisers, constructor-named functions elsewhere, decoys)
	Tests       bool // include _test.go files (in-package and external)
	Excluded    bool // include files whose names contain pool tokens / the default token
	PerPair     int  // statements templates per (using package, type)
	Impl        bool // include plain @implements cases (IMPL01..03) so that every code occurs
	NoFreeT     bool // avoid TONL-FREE mentions of @testonly types (keeps once-per-file groups determinate)
	MinimalAnn  int  // 0: random annotation mixes; 1: every type carries every annotation (all-codes programs)
	Typed       bool // unused (typed-variable templates are always part of the template set)
	ExclHeaders bool // pool-token files carry a file-level "@ignore ALL" (inert while the file is excluded)
	Twin        bool // the second declaring package starts with a byte-identical copy of the first one's first type (api/v1 vs api/v2)
	Transit     bool // add a package that receives values of annotated types only through an intermediate package
	Unrelated   bool // add an annotated package that nothing imports
	FlipDecl    bool // unused
	SameNames   bool // the second declaring package and one using package are DECLARED with the same package name as the first declaring package (imports need aliases)
	Exotic      bool // add a file of valid Go shapes outside the supported fragment (generics, embedding, aliases of predeclared types, labels, method expressions ...): FREE for every analyzer, hostile input for totality
}

// PoolTokens: exclude-paths tokens that occur in generated file names.
var PoolTokens = []string{"gen_legacy", "zz_skip", "Gen_Old"} // matching is case-sensitive: "gen_old" does not exclude Gen_Old_x.go

type Built struct {
	P     *Prog
	Spec  Spec
	Types []*Type
	DPkgs []*Pkg
	UPkgs []*Pkg
	Hist  map[string]int // template/context usage
}

func ctorSpelling(r *base.Rand, names []string) string {
	switch r.Intn(5) {
	case 0:
		return strings.Join(names, ",")
	case 1:
		return strings.Join(names, " , ")
	case 2:
		return strings.Join(names, ",  ") + " used by the factory"
	case 3:
		return strings.Join(names, ", ") + "\tsee docs"
	}
	if r.Chance(1, 6) { // a long list: the real names last
		var long []string
		for i := 0; i < 30; i++ {
			long = append(long, fmt.Sprintf("missingCtor%d", i))
		}
		return strings.Join(append(long, names...), ", ")
	}
	return strings.Join(names, ", ")
}

func (b *B) randAllow(r *base.Rand, pool []string) *Allow {
	a := &Allow{}
	nl := 1
	if r.Chance(1, 3) {
		nl = 2
	}
	for i := 0; i < nl; i++ {
		var l []string
		switch r.Intn(5) {
		case 0: // bare
		case 1:
			l = []string{base.Pick(r, pool)}
		case 2:
			l = []string{base.Pick(r, pool), base.Pick(r, pool)}
		case 3:
			x := base.Pick(r, pool)
			l = []string{x, x, "zzz"}
		default:
			l = []string{"zzz", base.Pick(r, pool), "m/none-such.v2/x_y"}
		}
		a.Lines = append(a.Lines, l)
	}
	return a
}

// Build creates one multi-package program.
func Build(spec Spec) *Built {
	r := base.NewRand(spec.Seed, fmt.Sprintf("prog-%d", spec.Index))
	p := &Prog{Module: "m"}
	b := &B{P: p, R: r}
	bt := &Built{P: p, Spec: spec, Hist: map[string]int{}}
	perPair := spec.PerPair
	if perPair == 0 {
		perPair = 14
	}

	d0 := b.NewPkg("m/d0", "d0", "d0")
	d1name := "dalt"
	if spec.Twin {
		d1name = "dz" // same length as "d0": the two type files can then be byte-identical up to the package name
	}
	if spec.SameNames {
		d1name = "d0"
	}
	d1 := b.NewPkg("m/sub/d1x", "sub/d1x", d1name)
	u0 := b.NewPkg("m/u0", "u0", "u0")
	u1 := b.NewPkg("m/app/u1", "app/u1", "u1")
	u2name := "ualt"
	if spec.SameNames {
		u2name = "d0" // an importer whose own package name equals the name of the package it imports
	}
	u2 := b.NewPkg("m/u2", "u2", u2name)
	bt.DPkgs = []*Pkg{d0, d1}
	bt.UPkgs = []*Pkg{u0, u1, u2}
	allowPool := []string{"u0", "m/u0", "u1", "m/app/u1", "ualt", "m/u2", "u2", "app/u1", "zzz", "m/d0", d1name}
	if spec.SameNames {
		allowPool = []string{"u0", "m/u0", "u1", "m/app/u1", "m/u2", "u2", "app/u1", "zzz", "m/d0", "m/sub/d1x"}
	}

	all := spec.MinimalAnn == 1
	coin := func(num, den int) bool { return all || r.Chance(num, den) }

	type tinfo struct {
		t   *Type
		env *Env
	}
	var twin *Type
	plainOf := map[*Pkg]*Func{}
	pubAlias := map[*Type]string{}
	var infos []tinfo
	tmpls := AllTemplates()
	nest := Nestings()
	queue := make([]int, len(tmpls)) // fair queue: every template gets its turn as soon as a context accepts it
	for i := range queue {
		queue[i] = i
	}
	base.Shuffle(r, queue)
	ncur := r.Intn(len(nest))

	var aliasDecls []*Type
	for di, d := range bt.DPkgs {
		tfn := "types.go"
		if spec.Twin {
			tfn = "a_types.go" // first file of the package: positions inside it do not depend on the other files
		}
		ftypes := b.NewFile(d, tfn)
		fapi := b.NewFile(d, "api.go")
		fuse := b.NewFile(d, "uses.go")
		if spec.Hostile {
			// an alias declaration that carries its own @packageonly list (its target is an unannotated type)
			fapi.Decls = append(fapi.Decls, &Node{Pre: []*Line{b.line("type PlainBase struct{ N int }")}})
			at := &Type{Pkg: d, Name: "LegacyPlain", Kind: "struct", PkgOnly: b.randAllow(r, allowPool), File: fapi}
			an := &Node{TypeDecl: at, Doc: append([]string{" LegacyPlain is generated."}, allowDoc(at.PkgOnly)...)}
			an.Pre = []*Line{b.line("type LegacyPlain = PlainBase")}
			fapi.Decls = append(fapi.Decls, an)
			aliasDecls = append(aliasDecls, at)
		}
		var fmeth *File
		var fexcl, fdtest, fdext *File
		if spec.Excluded {
			fexcl = b.NewFile(d, "gen_legacy_types.go")
		}
		// package-level functions with annotation mixes
		var helpers []*Func
		for k := 0; k < 3; k++ {
			name := []string{"Helper", "Gate", "Plain"}[k]
			if di == 1 && k == 2 {
				name = "Extra"
			}
			var po *Allow
			to := false
			switch k {
			case 0:
				to = coin(3, 4)
				if coin(1, 4) {
					po = b.randAllow(r, allowPool)
				}
			case 1:
				po = b.randAllow(r, allowPool)
				to = !all && r.Chance(1, 4)
			}
			n, fn := b.FuncNode(d, name, to, po, fapi, nil)
			fapi.Decls = append(fapi.Decls, n)
			helpers = append(helpers, fn)
			if k == 2 {
				plainOf[d] = fn
			}
		}
		if fexcl != nil {
			// annotated functions in a pool-token file: inert while the file is excluded (C14)
			n1, f1 := b.FuncNode(d, "LegacyHelper", true, nil, fexcl, nil)
			n2, f2 := b.FuncNode(d, "LegacyGate", false, b.randAllow(r, allowPool), fexcl, nil)
			fexcl.Decls = append(fexcl.Decls, n1, n2)
			helpers = append(helpers, f1, f2, f1)
		}
		nTypes := 4
		for ti := 0; ti < nTypes; ti++ {
			t := &Type{Pkg: d, Kind: "struct", Mutable: map[string]bool{}}
			t.Name = typeNames[(ti+di)%len(typeNames)]
			if ti == 3 {
				t.Name = "hidden" + typeNames[(ti+di)%len(typeNames)] // unexported type handed out through exported API
			}
			if ti == 2 {
				t.Kind = "int"
				t.Name = "Cnt"
			}
			if all {
				t.Immutable = true
			} else {
				t.Immutable = r.Chance(2, 3)
			}
			if coin(2, 3) {
				names := []string{"New" + t.Name}
				if r.Chance(1, 2) {
					names = append(names, "Make"+t.Name)
				}
				if r.Chance(1, 4) {
					names = append(names, "missing"+t.Name)
				}
				t.Ctors = names
				t.CtorText = ctorSpelling(r, names)
			}
			if ti != 2 { // keep the int type free of use-site annotations: its mentions are conversion-shaped (FREE)
				t.TestOnly = coin(1, 3)
				if coin(1, 2) {
					t.PkgOnly = b.randAllow(r, allowPool)
				}
			}
			if t.Immutable {
				t.Mutable["G"] = r.Chance(2, 3)
				t.Mutable["MS"] = r.Chance(2, 3)
				t.Mutable["P"] = r.Chance(1, 2)
				t.Mutable["Q"] = t.Mutable["P"] // declared together: one doc comment
			}
			if spec.Twin && ti == 0 {
				if di == 0 {
					t.Immutable = true
					t.Mutable["G"], t.Mutable["MS"] = true, false
					cp := *t
					twin = &cp
				} else {
					c := *twin
					c.Pkg = d
					c.Mutable = map[string]bool{"G": true, "MS": false} // byte-identical declaration
					*t = c
				}
			}

			tf := ftypes
			inert := false
			if fexcl != nil && ti == 1 && r.Chance(1, 2) {
				tf = fexcl // annotations in an excluded file are inert (C14)
				inert = true
			}
			_ = inert
			tf.Decls = append(tf.Decls, b.TypeDeclNode(t, tf))
			if t.Kind == "struct" {
				tf.Decls = append(tf.Decls, &Node{Pre: []*Line{b.line("type Inner" + t.Name + " struct{ Z int }")}})
				tf.Decls = append(tf.Decls, &Node{Pre: []*Line{b.line("type Emb" + t.Name + " struct {")}, Kids: []*Node{b.stmt("EX int"), b.stmt("ES []int")}, Post: []*Line{b.line("}")}})
			}
			env := &Env{}
			n, fn := b.CtorNode(t, "New"+t.Name, fapi)
			fapi.Decls = append(fapi.Decls, n)
			env.New = fn
			if t.Kind == "struct" {
				n, fn = b.ListNode(t, fapi)
				fapi.Decls = append(fapi.Decls, n)
				env.List = fn
			}
			// methods
			var rpo, vpo *Allow
			if coin(1, 2) {
				rpo = b.randAllow(r, allowPool)
			}
			if !all && r.Chance(1, 3) {
				vpo = b.randAllow(r, allowPool)
			}
			n, fn = b.MethodNode(t, "Reset", true, coin(1, 2), rpo, fapi, nil)
			fapi.Decls = append(fapi.Decls, n)
			env.Reset = fn
			n, fn = b.MethodNode(t, "Val", false, !all && r.Chance(1, 3), vpo, fapi, nil)
			fapi.Decls = append(fapi.Decls, n)
			env.Val = fn
			// an ordinary method in a file of its own: the receiver is the file's only mention of the type
			// (the book's mock / spy pattern: a @testonly type implementing a production interface)
			if exportedName(t.Name) {
				if fmeth == nil {
					fmeth = b.NewFile(d, "methods.go")
				}
				mn := &Node{Fn: &Func{Pkg: d, Name: "Describe", Recv: t, File: fmeth}, Pin: fmeth.Name}
				mn.Doc = []string{" Describe is an ordinary method."}
				ru := refT(t, SubRecv)
				ru.Feature = "receiver-is-only-mention"
				mn.Pre = []*Line{b.tl("func (r *%T) Describe() string {", ru)}
				mn.Kids = []*Node{b.stmt("return \"\"")}
				mn.Post = []*Line{b.line("}")}
				fmeth.Decls = append(fmeth.Decls, mn)
				// ... and one with an unnamed receiver
				un := &Node{Fn: &Func{Pkg: d, Name: "Flush", Recv: t, File: fmeth}, Pin: fmeth.Name}
				ru2 := refT(t, SubRecv)
				ru2.Feature = "receiver-is-only-mention"
				un.Pre = []*Line{b.tl("func (*%T) Flush() {}", ru2)}
				fmeth.Decls = append(fmeth.Decls, un)
			}
			if spec.Hostile {
				an := "Al" + strings.ToUpper(t.Name[:1]) + t.Name[1:]
				fapi.Decls = append(fapi.Decls, b.tstmt("type "+an+" = %T", free(refT(t, SubOther), TONL)))
				var apo, ppo *Allow
				if coin(1, 2) {
					apo = b.randAllow(r, allowPool)
				}
				if coin(1, 2) {
					ppo = b.randAllow(r, allowPool)
				}
				afn := &Func{Pkg: d, Name: "ViaAlias", Recv: t, TestOnly: coin(1, 2), PkgOnly: apo, File: fapi}
				fapi.Decls = append(fapi.Decls, &Node{Fn: afn, Doc: fnDoc(afn), Pre: []*Line{b.tl("func (r %T) ViaAlias() {", aliasRecv(t, an))}, Post: []*Line{b.line("}")}})
				env.AliasM = afn
				pfn := &Func{Pkg: d, Name: "ViaParen", Recv: t, TestOnly: coin(1, 2), PkgOnly: ppo, File: fapi}
				fapi.Decls = append(fapi.Decls, &Node{Fn: pfn, Doc: fnDoc(pfn), Pre: []*Line{b.tl("func (r (*%T)) ViaParen() {", refT(t, SubRecv))}, Post: []*Line{b.line("}")}})
				env.ParenM = pfn
				pan := "PAl" + strings.ToUpper(t.Name[:1]) + t.Name[1:]
				fapi.Decls = append(fapi.Decls, b.tstmt("type "+pan+" = *%T", free(refT(t, SubOther), TONL)))
				var qpo *Allow
				if coin(1, 2) {
					qpo = b.randAllow(r, allowPool)
				}
				qfn := &Func{Pkg: d, Name: "ViaPtrAlias", Recv: t, TestOnly: coin(1, 2), PkgOnly: qpo, File: fapi}
				fapi.Decls = append(fapi.Decls, &Node{Fn: qfn, Doc: fnDoc(qfn), Pre: []*Line{b.tl("func (r %T) ViaPtrAlias() {", aliasRecv(t, pan))}, Post: []*Line{b.line("}")}})
				env.PtrAliasM = qfn
			}
			if !exportedName(t.Name) && t.Kind == "struct" {
				// an unexported annotated type that importers reach through an exported alias and an exported container type
				pub := "Pub" + strings.ToUpper(t.Name[:1]) + t.Name[1:]
				fapi.Decls = append(fapi.Decls, b.tstmt("type "+pub+" = %T", free(refT(t, SubOther), TONL)))
				fapi.Decls = append(fapi.Decls, b.tstmt("type "+pub+"Index map[string]%T", free(refT(t, SubOther), TONL)))
				pubAlias[t] = pub
			}
			env.Helper = helpers[r.Intn(len(helpers))]
			if t.Kind == "struct" {
				var ppo *Allow
				if coin(1, 3) {
					ppo = b.randAllow(r, allowPool)
				}
				pfn := &Func{Pkg: d, Name: "Pass" + strings.ToUpper(t.Name[:1]) + t.Name[1:], TestOnly: coin(1, 2), PkgOnly: ppo, File: fapi}
				pn := &Node{Fn: pfn, Doc: fnDoc(pfn)}
				pn.Pre = []*Line{b.tl("func "+pfn.Name+"(x *%T) *%T { return x }", refT(t, SubParam), refT(t, SubResult))}
				fapi.Decls = append(fapi.Decls, pn)
				env.Pass = pfn
			}
			infos = append(infos, tinfo{t, env})
			bt.Types = append(bt.Types, t)

			// same-package contexts
			pick := func(filter func(Tmpl) bool, n int) []Tmpl {
				var out []Tmpl
				for qi := 0; len(out) < n && qi < len(queue); qi++ {
					tm := tmpls[queue[qi]]
					if tm.OnlyU || (tm.Kind != "" && tm.Kind != t.Kind) {
						continue
					}
					if t.Kind == "int" && (tm.Cat == IMM) {
						continue
					}
					if spec.NoFreeT && tm.FreeT && t.TestOnly {
						continue
					}
					if !spec.NoFreeT && tm.FreeT && t.TestOnly && !r.Chance(1, 4) {
						continue
					}
					if filter != nil && !filter(tm) {
						continue
					}
					out = append(out, tm)
					// fair rotation: a template moves to the back of the queue only when it is used
					idx := queue[qi]
					queue = append(append(queue[:qi:qi], queue[qi+1:]...), idx)
					qi--
				}
				return out
			}
			stmts := func(ts []Tmpl, feat string, tag string) (body []*Node, decls []*Node) {
				for _, tm := range ts {
					ns := tm.Make(b, t, env)
					bt.Hist[tm.Name+"@"+tag]++
					if tm.Decl {
						decls = append(decls, ns...)
						continue
					}
					if feat != "" {
						for _, n := range ns {
							for _, l := range n.flat(nil) {
								l.Feature = feat
							}
						}
					}
					body = append(body, ns...)
				}
				return
			}
			noDecl := func(tm Tmpl) bool { return !tm.Decl }
			// listed constructor with writes and instantiations inside (exempt)
			if t.Ctors != nil && hasStr(t.Ctors, "Make"+t.Name) {
				body, _ := stmts(pick(noDecl, 6), "", "in-ctor")
				// the constructor of THIS type also writes / instantiates ANOTHER annotated type of the package:
				// the exemption is per type, whatever the statement order
				if len(infos) >= 2 && infos[len(infos)-2].t.Pkg == d {
					other := infos[len(infos)-2]
					var ob []*Node
					for _, tm := range tmpls {
						if (tm.Name == "assign" || tm.Name == "inc" || tm.Name == "lit" || tm.Name == "new" || tm.Name == "var") && (tm.Kind == "" || tm.Kind == other.t.Kind) {
							ns := tm.Make(b, other.t, other.env)
							for _, n := range ns {
								for _, l := range n.flat(nil) {
									l.Feature = "other-type-inside-constructor"
								}
							}
							ob = append(ob, ns...)
							bt.Hist[tm.Name+"@other-type-in-ctor"]++
						}
					}
					if r.Bool() {
						body = append(ob, body...)
					} else {
						body = append(body, ob...)
					}
				}
				w := nest[ncur%len(nest)]
				ncur++
				n, _ := b.FuncNode(d, "Make"+t.Name, false, nil, fuse, w.Wrap(b, body))
				fuse.Decls = append(fuse.Decls, n)
			}
			// plain function in D
			{
				body, decls := stmts(pick(nil, 6), "", "same-pkg")
				w := nest[ncur%len(nest)]
				ncur++
				n, _ := b.FuncNode(d, b.d("use"), false, nil, fuse, w.Wrap(b, body))
				fuse.Decls = append(fuse.Decls, n)
				fuse.Decls = append(fuse.Decls, decls...)
			}
			// test files of the DECLARING package: in-package (same package) and external (package d_test, an importer)
			if spec.Tests && exportedName(t.Name) {
				if fdtest == nil {
					fdtest = b.NewFile(d, "in_test.go")
					fdext = b.NewFile(d, "ext_test.go")
					fdext.ExtTest = true
				}
				body, decls := stmts(pick(nil, 4), "", "declaring-pkg-test-file")
				n, _ := b.FuncNode(d, b.d("intest"), false, nil, fdtest, body)
				fdtest.Decls = append(fdtest.Decls, n)
				fdtest.Decls = append(fdtest.Decls, decls...)
				body2, _ := stmts(pick(noDecl, 4), "", "declaring-pkg-ext-test-file")
				n2, _ := b.FuncNode(d, b.d("xtest"), false, nil, fdext, body2)
				fdext.Decls = append(fdext.Decls, n2)
			}
			// method of T writing its own fields / receiver
			if t.Kind == "struct" {
				body := []*Node{b.stmt("r.F = 1", useT(UFieldAssign, t, "F")), b.stmt("r.G++", useT(UFieldIncDec, t, "G")),
					b.tstmt("*r = %T{}", useT(URecvAssign, t, ""), useT(ULit, t, ""), refT(t, SubLit))}
				n, _ := b.MethodNode(t, b.d("Set"), true, false, nil, fapi, body)
				fapi.Decls = append(fapi.Decls, n)
			} else {
				body := []*Node{b.stmt("*r++", useT(URecvIncDec, t, "")), b.stmt("*r--", useT(URecvIncDec, t, "")), b.stmt("*r = 5", useT(URecvAssign, t, ""))}
				n, _ := b.MethodNode(t, b.d("Bump"), true, false, nil, fapi, body)
				fapi.Decls = append(fapi.Decls, n)
				if spec.Hostile {
					pu := useT(URecvIncDec, t, "")
					pu.Feature = "paren-recv"
					po, po2 := useT(URecvOpAssign, t, ""), useT(URecvOpAssign, t, "")
					po.Feature, po2.Feature = "recv-op-assign", "recv-op-assign"
					body := []*Node{b.stmt("(*r)--", pu), b.stmt("*r += 5", po), b.stmt("*r <<= 1", po2)}
					n, _ := b.MethodNode(t, b.d("Paren"), true, false, nil, fapi, body)
					fapi.Decls = append(fapi.Decls, n)
					sh := b.stmt("v1 := func(r *int) { *r = 1 }")
					sh.Pre[0].Feature = "recv-shadow"
					n, _ = b.MethodNode(t, b.d("Shadow"), true, false, nil, fapi, []*Node{sh, b.stmt("_ = v1"), b.stmt("_ = r")})
					fapi.Decls = append(fapi.Decls, n)
				}
			}
			if spec.Hostile {
				// package-level initialiser in D (after the functions above)
				body, _ := stmts(pick(noDecl, 3), "pkglevel-init", "pkglevel-init")
				init := &Node{PkgLevel: true, Pre: []*Line{b.line("var _ = func() int {")}, Kids: body, Post: []*Line{b.line("return 0"), b.line("}()")}}
				fuse.Decls = append(fuse.Decls, init)
				// method that merely has a constructor's name (FREE by the model)
				if t.Ctors != nil {
					hn := b.d("hm")
					fuse.Decls = append(fuse.Decls, &Node{Pre: []*Line{b.line("type " + hn + " struct{}")}})
					body, _ := stmts(pick(noDecl, 2), "", "ctor-named-method")
					fn := &Func{Pkg: d, Name: t.Ctors[0], Recv: &Type{Pkg: d, Name: hn, Local: false}, File: fuse}
					fuse.Decls = append(fuse.Decls, &Node{Fn: fn, Pre: []*Line{b.line("func (h *" + hn + ") " + t.Ctors[0] + "() {")}, Kids: body, Post: []*Line{b.line("}")}})
				}
				// decoys
				if t.Kind == "struct" {
					lt := &Type{Pkg: d, Name: t.Name, Kind: "struct", Local: true}
					x := b.v()
					body := []*Node{
						b.stmt("type " + t.Name + " struct{ F int }"),
						b.tstmt(x+" := %T{}", useT(ULit, lt, ""), refT(lt, SubLit)),
						b.stmt(x+".F = 1", useT(UFieldAssign, lt, "F")),
						b.stmt(x+".F++", useT(UFieldIncDec, lt, "F")),
						b.stmt("_ = " + x),
					}
					for _, n := range body {
						n.Pre[0].Feature = "decoy-local-type"
					}
					n, _ := b.FuncNode(d, b.d("decoyT"), false, nil, fuse, body)
					fuse.Decls = append(fuse.Decls, n)
				}
			}
		}
		if spec.Hostile && len(infos) > 0 {
			// a plain METHOD named like a package function, and a plain FUNCTION named like a method of a type:
			// neither is the annotated item, so their bodies are ordinary code
			inf := infos[len(infos)-1]
			hn := b.d("hn")
			fuse.Decls = append(fuse.Decls, &Node{Pre: []*Line{b.line("type " + hn + " struct{}")}})
			for _, h := range helpers[:2] {
				var body []*Node
				for _, tm := range []string{"func-call", "method-call"} {
					for _, t := range tmpls {
						if t.Name == tm {
							ns := t.Make(b, inf.t, inf.env)
							for _, n := range ns {
								for _, l := range n.flat(nil) {
									l.Feature = "method-named-like-function"
								}
							}
							body = append(body, ns...)
						}
					}
				}
				fn := &Func{Pkg: d, Name: h.Name, Recv: &Type{Pkg: d, Name: hn}, File: fuse}
				fuse.Decls = append(fuse.Decls, &Node{Fn: fn, Pre: []*Line{b.line("func (h *" + hn + ") " + h.Name + "() {")}, Kids: body, Post: []*Line{b.line("}")}})
			}
		}
		if spec.Hostile {
			// closure / parameter that merely share the name of a package function
			h := helpers[0]
			c1 := b.stmt(h.Name + " := func() {}")
			c2 := b.stmt(h.Name + "()")
			c1.Pre[0].Feature, c2.Pre[0].Feature = "decoy-closure", "decoy-closure"
			n, _ := b.FuncNode(d, b.d("decoyF"), false, nil, fuse, []*Node{c1, c2})
			fuse.Decls = append(fuse.Decls, n)
			pn := &Node{Fn: &Func{Pkg: d, Name: b.d("decoyP"), File: fuse}}
			pl := b.line("func " + pn.Fn.Name + "(" + h.Name + " func()) {")
			cl := b.line(h.Name + "()")
			cl.Feature = "decoy-param"
			pn.Pre, pn.Kids, pn.Post = []*Line{pl}, []*Node{{Pre: []*Line{cl}}}, []*Line{b.line("}")}
			fuse.Decls = append(fuse.Decls, pn)
		}
		if spec.Impl {
			b.addImpl(d, ftypes)
		}
	}

	if spec.Impl {
		// cross-package @implements whose interface mentions a named type of the declaring package; with test files the
		// declaring package exists twice in one run (plain and test variant) and so does the implementing package
		d := bt.DPkgs[0]
		uf := b.NewFile(u0, "codec.go")
		mkc := func(name string, codes []string, methods []string) {
			t := &Type{Pkg: u0, Name: name, Kind: "struct", Impl: []string{"x"}, ImplCodes: codes, File: uf}
			n := &Node{TypeDecl: t, Doc: []string{" " + name + " is generated.", " @implements " + q(d) + "Codec"}}
			// (the declaration itself uses the package in code, so that the import its annotation needs stays used
			// wherever a layout variant moves the declaration)
			n.Pre = []*Line{b.line("type "+name+" struct{ last "+q(d)+"Token }", &Use{Kind: UImpl, T: t})}
			uf.Decls = append(uf.Decls, n)
			for _, m := range methods {
				uf.Decls = append(uf.Decls, &Node{Fn: &Func{Pkg: u0, Name: "m", File: uf}, Pre: []*Line{b.line("func (c " + name + ") " + m)}})
			}
		}
		mkc("GoodCodec", nil, []string{"Encode(t " + q(d) + "Token) []" + q(d) + "Token { return nil }", "Label() string { return \"g\" }"})
		mkc("HalfCodec", []string{"IMPL03"}, []string{"Encode(t " + q(d) + "Token) []" + q(d) + "Token { return nil }"})
		uf.Decls = append(uf.Decls, &Node{Fn: &Func{Pkg: u0, Name: "Anchor", File: uf}, Pre: []*Line{b.line("func Anchor() {}")}})
		for _, f := range d.Files {
			if f.ExtTest {
				f.Decls = append(f.Decls, &Node{Pre: []*Line{b.line("var _ = «m/u0».Anchor")}})
			}
		}
	}
	for _, inf := range infos {
		for _, d := range bt.DPkgs {
			if d != inf.t.Pkg && plainOf[d] != nil && !spec.SameNames {
				inf.env.OtherPkg, inf.env.OtherFunc = d, plainOf[d]
			}
		}
	}
	// using packages
	for ui, u := range bt.UPkgs {
		fa := b.NewFile(u, "a.go")
		fb := b.NewFile(u, "b.go")
		files := []*File{fa, fb}
		if ui%2 == 1 {
			// `unsafe` never carries a fact under go vet (it is not analysed there): first in the package's import list
			fa.BlankImp = append(fa.BlankImp, "unsafe")
		}
		fnoimp := b.NewFile(u, "noimp.go")
		for _, at := range aliasDecls {
			// references to the annotated alias declaration: a variable, a parameter, a literal
			v1 := b.tstmt("var "+b.d("leg")+" %T", refT(at, SubVar))
			v1.PkgLevel = true
			v1.Pre[0].Feature = "annotated-alias-declaration"
			fn := &Node{Fn: &Func{Pkg: u, Name: b.d("useLegacy"), File: fb}}
			pl := b.tl("func "+fn.Fn.Name+"(v1 *%T) {", refT(at, SubParam))
			pl.Feature = "annotated-alias-declaration"
			ll := b.tl("_ = %T{N: 1}", refT(at, SubLit))
			ll.Feature = "annotated-alias-declaration"
			fn.Pre = []*Line{pl}
			fn.Kids = []*Node{{Pre: []*Line{ll}}}
			fn.Post = []*Line{b.line("}")}
			fa.Decls = append(fa.Decls, v1)
			fb.Decls = append(fb.Decls, fn)
		}
		var ftest, fext, fex, ftex *File
		if spec.Tests {
			ftest = b.NewFile(u, "a_test.go")
			fext = b.NewFile(u, "ext_test.go")
			fext.ExtTest = true
		}
		if spec.Excluded {
			fex = b.NewFile(u, PoolTokens[ui%len(PoolTokens)]+"_x.go")
			if spec.ExclHeaders && ui != 1 {
				fex.AddHeaderIgnore(p, "ALL")
			}
			if spec.Tests {
				ftex = b.NewFile(u, PoolTokens[(ui+1)%len(PoolTokens)]+"_y_test.go") // a test file inside an excluded path
			}
		}
		if ui == 2 {
			fa.Rename["m/d0"] = "dzero" // renamed import
		}
		var felided, fmapkey *File
		var fdot *File
		if ui == 1 {
			// (package u1 therefore declares no function named like a constructor of d0: it would collide with the dot import)
			fdot = b.NewFile(u, "dot.go")
			fdot.Rename["m/d0"] = "."
		}

		usedNames := map[string]bool{}
		holder := b.d("hold")
		fa.Decls = append(fa.Decls, &Node{Pre: []*Line{b.line("type " + holder + " struct{}")}})
		for _, inf := range infos {
			t, env := inf.t, inf.env
			pick := func(filter func(Tmpl) bool, n int) []Tmpl {
				var out []Tmpl
				for qi := 0; len(out) < n && qi < len(queue); qi++ {
					tm := tmpls[queue[qi]]
					if tm.OnlyD || (tm.Kind != "" && tm.Kind != t.Kind) {
						continue
					}
					if !exportedName(t.Name) && !tm.NoImp {
						continue // an importer cannot name an unexported type; it can still hold and mutate its values
					}
					if t.Kind == "int" && tm.Cat == IMM {
						continue
					}
					if spec.NoFreeT && tm.FreeT && t.TestOnly {
						continue
					}
					if !spec.NoFreeT && tm.FreeT && t.TestOnly && !r.Chance(1, 4) {
						continue
					}
					if filter != nil && !filter(tm) {
						continue
					}
					out = append(out, tm)
					// fair rotation: a template moves to the back of the queue only when it is used
					idx := queue[qi]
					queue = append(append(queue[:qi:qi], queue[qi+1:]...), idx)
					qi--
				}
				return out
			}
			stmts := func(ts []Tmpl, feat string, tag string) (body []*Node, decls []*Node) {
				for _, tm := range ts {
					ns := tm.Make(b, t, env)
					bt.Hist[tm.Name+"@"+tag]++
					if tm.Decl {
						decls = append(decls, ns...)
						continue
					}
					if feat != "" {
						for _, n := range ns {
							for _, l := range n.flat(nil) {
								l.Feature = feat
							}
						}
					}
					body = append(body, ns...)
				}
				return
			}
			noDecl := func(tm Tmpl) bool { return !tm.Decl }
			f := files[r.Intn(len(files))]
			// plain functions with nestings
			for left := perPair; left > 0; {
				k := 3 + r.Intn(4)
				if k > left {
					k = left
				}
				left -= k
				body, decls := stmts(pick(nil, k), "", "func")
				w := nest[ncur%len(nest)]
				ncur++
				var n *Node
				switch r.Intn(4) {
				case 0: // method of a local unannotated type
					n = &Node{Fn: &Func{Pkg: u, Name: b.d("m"), Recv: &Type{Pkg: u, Name: holder}, File: f}}
					n.Pre = []*Line{b.line("func (h *" + holder + ") " + n.Fn.Name + "() {")}
					n.Kids, n.Post = w.Wrap(b, body), []*Line{b.line("}")}
				default:
					n, _ = b.FuncNode(u, b.d("f"), false, nil, f, w.Wrap(b, body))
				}
				n.Tag = w.Name
				f.Decls = append(f.Decls, n)
				f.Decls = append(f.Decls, decls...)
				f = files[r.Intn(len(files))]
			}
			// a file that does not import the declaring package: values arrive through a package-local helper
			if t.Kind == "struct" && exportedName(t.Name) {
				gname := b.d("get" + t.Name)
				gfn := &Func{Pkg: u, Name: gname, File: fa}
				gn := &Node{Fn: gfn, Pin: fa.Name}
				gn.Pre = []*Line{b.tl("func "+gname+"() *%T {", refT(t, SubResult))}
				c, cu := callNew(t, env)
				gn.Kids = []*Node{b.stmt("return "+c, cu)}
				gn.Post = []*Line{b.line("}")}
				fa.Decls = append(fa.Decls, gn)
				env2 := *env
				env2.Getter = gfn
				var body []*Node
				for _, tm := range pick(func(tm Tmpl) bool { return tm.NoImp }, 4) {
					ns := tm.Make(b, t, &env2)
					bt.Hist[tm.Name+"@no-import-file"]++
					for _, n := range ns {
						for _, l := range n.flat(nil) {
							l.Feature = "file-without-import"
						}
					}
					body = append(body, ns...)
				}
				// instantiations spelled through a package-local alias that is declared in another file
				aname := b.d("loc" + t.Name)
				an := b.tstmt("type "+aname+" = %T", free(refT(t, SubOther), TONL))
				an.Pin = fa.Name
				fa.Decls = append(fa.Decls, an)
				for _, tm := range pick(func(tm Tmpl) bool { return tm.Cat == CTOR && !tm.FreeT && !tm.Decl && tm.Name != "var-init-call" }, 3) {
					ns := tm.Make(b, t, &env2)
					bt.Hist[tm.Name+"@no-import-file"]++
					for _, n := range ns {
						for _, l := range n.flat(nil) {
							l.Feature = "file-without-import"
							for _, us := range l.Uses {
								if us.Kind == UTypeRef {
									us.SpellAs = q(u) + aname
								}
							}
						}
					}
					body = append(body, ns...)
				}
				w := nest[ncur%len(nest)]
				ncur++
				n, _ := b.FuncNode(u, b.d("ni"), false, nil, fnoimp, w.Wrap(b, body))
				n.Pin = fnoimp.Name
				fnoimp.Decls = append(fnoimp.Decls, n)
			}
			if pa := pubAlias[t]; pa != "" {
				// instantiations of the unexported type through its exported alias / container (elided element)
				var body []*Node
				for _, tm := range tmpls {
					if tm.Name == "lit" || tm.Name == "new" || tm.Name == "var" || tm.Name == "lit-addr" || tm.Name == "typed-assign" {
						ns := tm.Make(b, t, env)
						for _, n := range ns {
							for _, l := range n.flat(nil) {
								l.Feature = "unexported-type-through-exported-alias"
								for _, us := range l.Uses {
									if us.Kind == UTypeRef {
										us.SpellAs = q(t.Pkg) + pa
									}
								}
							}
						}
						body = append(body, ns...)
					}
				}
				x := b.v()
				el := b.stmt(x+" := "+q(t.Pkg)+pa+"Index{\"k\": {}}", useT(ULit, t, ""), free(refT(t, SubLit), TONL, PKGO))
				el.Pre[0].Feature = "unexported-type-through-exported-alias"
				body = append(body, el, b.stmt("_ = "+x))
				n, _ := b.FuncNode(u, b.d("viaPub"), false, nil, f, body)
				f.Decls = append(f.Decls, n)
			}
			// a file of its own in which the first use of the type is suppressed by a trailing @ignore: the once-per-file
			// report has to move to the elided element literal on the next line
			if spec.Hostile && t.Kind == "struct" && exportedName(t.Name) {
				if felided == nil {
					felided = b.NewFile(u, "elided.go")
				}
				x := b.v()
				el := func(txt string) *Line {
					// (an elided literal spells no reference to the type: nothing for PKGO on these lines)
					l := b.tl(txt, useT(ULit, t, ""), free(refT(t, SubLit), PKGO))
					l.Feature = "suppressed-first-use-then-elided-literal"
					return l
				}
				first := b.tl(x+" := []%T{", composite(refT(t, SubLit)))
				first.Feature = "suppressed-first-use-then-elided-literal"
				first.Trail = &Ignore{Codes: "TONL01, PKGO01"}
				n := &Node{Pre: []*Line{first, el("\t{},"), el("\t{F: 1},"), b.line("}")}}
				fn, _ := b.FuncNode(u, b.d("elided"), false, nil, felided, []*Node{n, b.stmt("_ = " + x)})
				fn.Pin = felided.Name
				felided.Decls = append(felided.Decls, fn)
			}
			// a file in which the only use of the type is as the key of a map type
			if spec.Hostile && exportedName(t.Name) {
				if fmapkey == nil {
					fmapkey = b.NewFile(u, "mapkey.go")
				}
				mk := b.tstmt("var "+b.d("seen")+" map[*%T]bool", composite(refT(t, SubVar)))
				mk.Pre[0].Feature = "only-use-is-map-key"
				mk.PkgLevel = true
				mk.Pin = fmapkey.Name
				fmapkey.Decls = append(fmapkey.Decls, mk)
			}
			// a file that dot-imports the declaring package: every reference is a bare identifier
			if fdot != nil && t.Pkg.Path == "m/d0" && exportedName(t.Name) {
				body, decls := stmts(pick(func(tm Tmpl) bool { return tm.Name != "local-named-like-imported-package" }, 6), "dot-import", "dot-import-file")
				n, _ := b.FuncNode(u, b.d("dotf"), false, nil, fdot, body)
				for _, d := range decls {
					for _, l := range d.flat(nil) {
						l.Feature = "dot-import"
					}
					d.Pin = fdot.Name
				}
				n.Pin = fdot.Name
				fdot.Decls = append(fdot.Decls, n)
				fdot.Decls = append(fdot.Decls, decls...)
			}
			// inside a @testonly function of the using package: TONL silent, everything else as usual
			if ui != 1 { // package u1 declares no annotated item of its own
				body, _ := stmts(pick(noDecl, 3), "", "in-testonly-func")
				n, _ := b.FuncNode(u, b.d("tonly"), true, nil, f, body)
				f.Decls = append(f.Decls, n)
			}
			if spec.Hostile {
				// package-level initialiser
				body, _ := stmts(pick(noDecl, 3), "pkglevel-init", "pkglevel-init")
				init := &Node{PkgLevel: true, Pre: []*Line{b.line("var _ = func() int {")}, Kids: body, Post: []*Line{b.line("return 0"), b.line("}()")}}
				if r.Chance(1, 3) {
					f.Decls = append([]*Node{init}, f.Decls...)
				} else {
					f.Decls = append(f.Decls, init)
				}
				// package-level variables
				if t.Kind == "struct" && exportedName(t.Name) {
					g1, g2, g3 := b.d("g"), b.d("g"), b.d("g")
					vs := []*Node{
						b.tstmt("var "+g1+" %T", useT(UVarZero, t, ""), refT(t, SubVar)),
						b.tstmt("var "+g2+" = %T{}", useT(ULit, t, ""), refT(t, SubLit)),
					}
					if !(t.TestOnly && spec.NoFreeT) {
						vs = append(vs, b.tstmt("var "+g3+" = new(%T)", useT(UNew, t, ""), free(refT(t, SubOther), TONL)))
					}
					for _, n := range vs {
						n.PkgLevel = true
						n.Pre[0].Feature = "pkglevel-var"
					}
					f.Decls = append(f.Decls, vs...)
				}
				// a function of this package that merely has the name of a listed constructor
				if t.Ctors != nil && !usedNames[t.Ctors[0]] && fdot == nil {
					usedNames[t.Ctors[0]] = true
					body, _ := stmts(pick(func(tm Tmpl) bool {
						return !tm.Decl && (tm.Cat == IMM || tm.Cat == CTOR) && (exportedName(t.Name) || tm.NoImp)
					}, 4), "xpkg-ctor-name", "xpkg-ctor-name")
					n, _ := b.FuncNode(u, t.Ctors[0], false, nil, f, body)
					f.Decls = append(f.Decls, n)
				}
			}
			if ftest != nil && r.Chance(2, 3) {
				body, decls := stmts(pick(nil, 4), "", "test-file")
				n, _ := b.FuncNode(u, b.d("tf"), false, nil, ftest, body)
				ftest.Decls = append(ftest.Decls, n)
				ftest.Decls = append(ftest.Decls, decls...)
			}
			if fext != nil && r.Chance(1, 2) {
				body, _ := stmts(pick(noDecl, 3), "", "ext-test-file")
				n, _ := b.FuncNode(u, b.d("xf"), false, nil, fext, body)
				fext.Decls = append(fext.Decls, n)
			}
			if ftex != nil && r.Chance(2, 3) {
				body, decls := stmts(pick(nil, 3), "", "excluded-test-file")
				n, _ := b.FuncNode(u, b.d("etf"), false, nil, ftex, body)
				ftex.Decls = append(ftex.Decls, n)
				ftex.Decls = append(ftex.Decls, decls...)
			}
			if fex != nil && r.Chance(2, 3) {
				body, decls := stmts(pick(nil, 4), "", "excluded-file")
				n, _ := b.FuncNode(u, b.d("ef"), false, nil, fex, body)
				fex.Decls = append(fex.Decls, n)
				fex.Decls = append(fex.Decls, decls...)
			}
		}
		if spec.Hostile {
			// one type expression that uses TWO annotated types: each of them is due its own once-per-file report
			var ex []*Type
			for _, inf := range infos {
				if exportedName(inf.t.Name) {
					ex = append(ex, inf.t)
				}
			}
			if len(ex) >= 2 {
				ftwo := b.NewFile(u, "twotypes.go")
				for i := 0; i+1 < len(ex); i += 2 {
					n := b.tstmt("var "+b.d("both")+" map[*%T][]*%T", composite(refT(ex[i], SubVar)), composite(refT(ex[i+1], SubVar)))
					n.Pre[0].Feature = "two-types-in-one-expression"
					for _, us := range n.Pre[0].Uses {
						us.Feature = "two-types-in-one-expression"
					}
					n.PkgLevel = true
					n.Pin = ftwo.Name
					ftwo.Decls = append(ftwo.Decls, n)
				}
			}
		}
		if spec.Exotic {
			b.addExotic(u, infos[0].t, infos[0].env)
		}
		if spec.Twin {
			// writes to the @mutable and to an ordinary field of BOTH twin types in one function
			var body []*Node
			for _, inf := range infos {
				if inf.t.Name != infos[0].t.Name || inf.t.Kind != "struct" {
					continue
				}
				for _, tm := range tmpls {
					if tm.Name == "mut-assign" || tm.Name == "mut-inc" || tm.Name == "assign" {
						body = append(body, tm.Make(b, inf.t, inf.env)...)
					}
				}
			}
			n, _ := b.FuncNode(u, b.d("twins"), false, nil, fa, body)
			fa.Decls = append(fa.Decls, n)
		}
		if spec.Hostile {
			// files that END in a one-line top-level declaration carrying a violation
			for _, f := range files {
				inf := infos[r.Intn(len(infos))]
				if inf.t.Kind != "struct" || !exportedName(inf.t.Name) {
					inf = infos[0]
				}
				n := b.tstmt("var "+b.d("gl")+" %T", useT(UVarZero, inf.t, ""), refT(inf.t, SubVar))
				n.PkgLevel = true
				n.Pin = f.Name
				n.Pre[0].Feature = "pkglevel-var"
				f.Decls = append(f.Decls, n)
			}
		}
		for _, f := range u.Files {
			if len(f.Decls) == 0 {
				f.Decls = append(f.Decls, &Node{Pre: []*Line{b.line("var " + b.d("pad") + " = 0")}})
			}
		}
	}
	if spec.Excluded && len(infos) > 0 {
		// a whole package below a directory whose NAME contains an exclude-paths token
		ux := b.NewPkg("m/zz_skip_pkg/ux", "zz_skip_pkg/ux", "ux")
		xf := b.NewFile(ux, "ux.go")
		for i, inf := range infos {
			if !exportedName(inf.t.Name) || i > 4 {
				continue
			}
			var body []*Node
			for _, tm := range tmpls {
				if (tm.Name == "assign" || tm.Name == "lit" || tm.Name == "func-call" || tm.Name == "method-call" || tm.Name == "var") && (tm.Kind == "" || tm.Kind == inf.t.Kind) {
					body = append(body, tm.Make(b, inf.t, inf.env)...)
				}
			}
			n, _ := b.FuncNode(ux, b.d("inDir"), false, nil, xf, body)
			xf.Decls = append(xf.Decls, n)
		}
	}
	if spec.Transit && len(infos) > 0 {
		// t0 hands out values of d-types; w0 imports only t0 (the annotated packages are indirect dependencies of w0)
		t0 := b.NewPkg("m/t0", "t0", "t0")
		w0 := b.NewPkg("m/w0", "w0", "w0")
		tf := b.NewFile(t0, "t.go")
		wf := b.NewFile(w0, "w.go")
		for i, inf := range infos {
			if inf.t.Kind != "struct" || i > 3 || !exportedName(inf.t.Name) {
				continue
			}
			g := &Func{Pkg: t0, Name: fmt.Sprintf("Get%d%s", i, inf.t.Name), File: tf}
			gn := &Node{Fn: g, Doc: fnDoc(g)}
			gn.Pre = []*Line{b.tl("func "+g.Name+"() *%T {", refT(inf.t, SubResult))}
			c, cu := callNew(inf.t, inf.env)
			gn.Kids = []*Node{b.stmt("return "+c, cu)}
			gn.Post = []*Line{b.line("}")}
			tf.Decls = append(tf.Decls, gn)
			env2 := *inf.env
			env2.Getter = g
			var body []*Node
			for _, tm := range tmpls {
				if tm.NoImp && (tm.Name == "assign" || tm.Name == "inc" || tm.Name == "idx-map" || tm.Name == "method-call" || tm.Name == "mut-assign") {
					body = append(body, tm.Make(b, inf.t, &env2)...)
				}
			}
			n, _ := b.FuncNode(w0, b.d("w"), false, nil, wf, body)
			wf.Decls = append(wf.Decls, n)
		}
	}
	if spec.Unrelated {
		z0 := b.NewPkg("m/z0", "z0", "z0")
		zf := b.NewFile(z0, "z.go")
		zt := &Type{Pkg: z0, Name: "Cfg", Kind: "struct", Immutable: true, Ctors: []string{"NewCfg"}, Mutable: map[string]bool{"G": true}}
		zf.Decls = append(zf.Decls, b.TypeDeclNode(zt, zf))
		zf.Decls = append(zf.Decls, &Node{Pre: []*Line{b.line("type InnerCfg struct{ Z int }")}})
		zf.Decls = append(zf.Decls, &Node{Pre: []*Line{b.line("type EmbCfg struct{ EX int; ES []int }")}})
		n, fn := b.CtorNode(zt, "NewCfg", zf)
		zf.Decls = append(zf.Decls, n)
		zenv := &Env{New: fn}
		var body []*Node
		for _, tm := range tmpls {
			if tm.Name == "assign" || tm.Name == "lit" || tm.Name == "new" || tm.Name == "mut-op" {
				body = append(body, tm.Make(b, zt, zenv)...)
			}
		}
		un, _ := b.FuncNode(z0, "Use", false, nil, zf, body)
		zf.Decls = append(zf.Decls, un)
	}
	if spec.SameNames {
		for _, pk := range p.Pkgs {
			for _, f := range pk.Files {
				if f.Rename == nil {
					f.Rename = map[string]string{}
				}
				if pk.Path != "m/sub/d1x" {
					f.Rename["m/sub/d1x"] = "dsecond"
				}
				if pk.Name == "d0" && pk.Path != "m/d0" {
					f.Rename["m/d0"] = "dzero"
				}
			}
		}
	}
	for _, d := range bt.DPkgs {
		var keep []*File
		for _, f := range d.Files {
			if len(f.Decls) > 0 {
				keep = append(keep, f)
			}
		}
		d.Files = keep
	}
	return bt
}

// addImpl: plain @implements cases on which the tool and the Go type checker agree by construction.
func (b *B) addImpl(d *Pkg, f *File) {
	in := &Node{Pre: []*Line{b.line("type Shape interface {")}, Kids: []*Node{b.stmt("Area() int"), b.stmt("Name() string")}, Post: []*Line{b.line("}")}}
	f.Decls = append(f.Decls, in)
	mk := func(name string, impl string, codes []string, methods []string) {
		t := &Type{Pkg: d, Name: name, Kind: "struct", Impl: []string{impl}, ImplCodes: codes, File: f}
		n := &Node{TypeDecl: t, Doc: []string{" " + name + " is generated.", " @implements " + impl}}
		n.Pre = []*Line{b.line("type "+name+" struct{}", &Use{Kind: UImpl, T: t})}
		f.Decls = append(f.Decls, n)
		for _, m := range methods {
			f.Decls = append(f.Decls, &Node{Fn: &Func{Pkg: d, Name: "m", File: f}, Pre: []*Line{b.line("func (s " + name + ") " + m)}})
		}
	}
	f.Decls = append(f.Decls, &Node{Pre: []*Line{b.line("type Token struct{ V int }")}})
	f.Decls = append(f.Decls, &Node{Pre: []*Line{b.line("type Codec interface {")}, Kids: []*Node{b.stmt("Encode(t Token) []Token"), b.stmt("Label() string")}, Post: []*Line{b.line("}")}})
	mk("Sq", "Shape", nil, []string{"Area() int { return 1 }", "Name() string { return \"sq\" }"})
	mk("Tri", "Shape", []string{"IMPL03"}, []string{"Area() int { return 1 }"})
	mk("Circ", "nosuchpkg.Shape", []string{"IMPL01"}, nil)
	mk("Hex", "NoSuchIface", []string{"IMPL02"}, nil)
	mk("Oct", "&Shape", []string{"IMPL03"}, []string{"Area() string { return \"\" }", "Name() string { return \"o\" }"})
	// @implements on alias declarations whose target lives in another file / another package: the diagnostic belongs
	// to the annotated declaration, not to the place where the aliased type is declared
	f.Decls = append(f.Decls, &Node{Pre: []*Line{b.line("type plainImpl struct{ n int }")}})
	f2 := b.NewFile(d, "implalias.go")
	mkAlias := func(name, target string) {
		t := &Type{Pkg: d, Name: name, Kind: "struct", Impl: []string{"Shape"}, ImplCodes: []string{"IMPL03"}, File: f2}
		n := &Node{TypeDecl: t, Doc: []string{" " + name + " is generated.", " @implements Shape"}, Pin: f2.Name}
		n.Pre = []*Line{b.line("type "+name+" = "+target, &Use{Kind: UImpl, T: t})}
		n.Pre[0].Feature = "implements-on-alias-declaration"
		f2.Decls = append(f2.Decls, n)
	}
	mkAlias("AliasLocal", "plainImpl")
	mkAlias("AliasStd", "«bytes».Buffer")
}

// addExotic: shapes outside the supported fragment. Every line is FreeAll; the file must compile.
func (b *B) addExotic(u *Pkg, t *Type, env *Env) {
	f := b.NewFile(u, "exotic.go")
	T := "«" + t.Pkg.Path + "»." + t.Name
	N := "«" + t.Pkg.Path + "»." + env.New.Name + "()"
	R := env.Reset.Name
	src := `type Failure = error
type Anyx = any
type ErrList []error
type Gen[E any] struct{ v E }
func (g *Gen[E]) Set(v E) { g.v = v }
func (g Gen[E]) Get() E { return g.v }
func MapAll[A, B any](xs []A, fn func(A) B) []B {
	var out []B
	for _, x := range xs {
		out = append(out, fn(x))
	}
	return out
}
type Number interface{ ~int | ~int64 }
func Sum[N Number](xs ...N) (s N) {
	for _, x := range xs {
		s += x
	}
	return
}
type Emb struct {
	*$T
	Extra int
}
type Emb2 struct{ $T }
type Iface interface {
	error
	M(x *$T) $T
}
type fnType func(*$T) error
type chanType chan<- *$T
type localAlias = $T
type ptrAlias = *$T
type defined $T
var exoticGlobal = func() *$T { return $N }()
var exoticArr = [...]*$T{$N, nil}
var exoticMap = map[string][]*$T{"a": {$N}}
const (
	exoticA = iota
	exoticB
)
func exotic(args ...*$T) (res *$T, err Failure) {
	var f Failure
	_ = f
	var a Anyx = $N
	e := Emb{$B: $N}
	e.F = 1
	e.S[0] = 2
	e.F++
	e2 := Emb2{}
	e2.F += 3
	e2.$R()
	g := Gen[*$T]{}
	g.Set($N)
	g.v.F = 4
	g.Get().F = 5
	_ = MapAll([]*$T{$N}, func(x *$T) int { x.F = 6; return x.F })
	_ = Sum(1, 2, 3)
outer:
	for i := 0; i < 2; i++ {
		for _, x := range args {
			if x == nil {
				continue outer
			}
			x.F = i
			break outer
		}
	}
	switch x := a.(type) {
	case *$T:
		x.F = 7
	case nil, int:
	default:
		_ = x
	}
	me := (*$T).$R
	me($N)
	mv := $N.$R
	mv()
	var arr [2]$T
	arr[0].F = 8
	arr[1] = $T{}
	m := map[string]*$T{"k": $N}
	m["k"].F = 9
	m["k"].M["z"] = 1
	ch := make(chan *$T, 1)
	ch <- $N
	(<-ch).F = 10
	func() {
		defer func() { _ = recover() }()
		var p *$T
		p.F = 11
	}()
	pp := &res
	*pp = $N
	(*pp).F = 12
	(**pp).F = 13
	var la localAlias
	la.F = 14
	var pa ptrAlias = $N
	pa.F = 15
	d := defined{}
	d.F = 16
	_ = struct{ $T }{}
	_ = []any{$T{}, &$T{}, new($T)}
	var fn fnType = func(x *$T) error { x.F--; return nil }
	_ = fn($N)
	var ct chanType
	_ = ct
	if v, ok := a.(interface{ $R() }); ok {
		v.$R()
	}
	goto end
end:
	x, y := $N, $N
	x.F, y.F = y.F, x.F
	x.F, _ = 1, 2
	*x = *y
	for x.F = range 3 {
	}
	for x.S[0] = range []int{1} {
	}
	for _, x.F = range []int{1} {
	}
	select {
	case x.F = <-make(chan int):
	case ch <- x:
	default:
	}
	_ = exoticGlobal
	_ = exoticArr
	_ = exoticMap
	_ = exoticA + exoticB
	_, _ = e, e2
	return x, nil
}
`
	src += `type exoticIface interface{ M() }
// @implements exoticIface
type _ struct{ buf []byte }
// @implements exoticIface
// @immutable
// @constructor NewNothing
type exoticFn = func() string
// @implements &exoticIface
// @testonly
type exoticList = []int
// @implements exoticIface
type exoticAnon = struct{ n int }
`
	src += `type Link *Link
type RingA *RingB
type RingB *RingA
type holderOfLinks struct {
	next Link
	a    RingA
}
func exoticCyclicPointers(l Link, a RingA) (Link, RingB) {
	var x Link
	var y RingB = new(RingA)
	z := new(Link)
	_ = holderOfLinks{next: x, a: a}
	_, _ = z, l
	return x, y
}
`
	src += `//line a.go:9
func exoticLineDirective(x *$T) { x.F = 99 }
//line a.go:12:3
func exoticLineDirectiveCol(x *$T) { x.F++ }
//line /nonexistent/dir/gen.y:7
func exoticLineDirectiveMissing(x *$T) { x.S[0] = 1 }
/*line b.go:4*/ func exoticLineDirectiveBlock(x *$T) { x.F -= 1 }
//line exotic.go:1000000
func exoticLineDirectiveBeyond(x *$T) { x.F = 3; _ = $T{} }
//line exotic.go:500000
func exoticLineDirectiveIgnore(x *$T) { x.F = 4 } // @ignore IMM01
func exoticLineDirectiveIgnoreInside(x *$T) {
//line gen.tmpl:1000
	x.F = 5 // @ignore IMM01
	// @ignore IMM
	x.F = 6
}
`
	src = strings.ReplaceAll(src, "$B", t.Name)
	src = strings.ReplaceAll(src, "$T", T)
	src = strings.ReplaceAll(src, "$N", N)
	src = strings.ReplaceAll(src, "$R", R)
	n := &Node{}
	for _, l := range strings.Split(strings.TrimRight(src, "\n"), "\n") {
		ln := b.line(l)
		ln.FreeAll = true
		n.Pre = append(n.Pre, ln)
	}
	n.Pin = f.Name
	f.Decls = append(f.Decls, n)
}

// aliasRecv: the receiver type of a method, spelled through an alias of t declared in t's own package.
func aliasRecv(t *Type, alias string) *Use {
	u := refT(t, SubRecv)
	u.SpellAs = alias
	return u
}

func exportedName(n string) bool { return n != "" && n[0] >= 'A' && n[0] <= 'Z' }
