package gen

import (
	"fmt"
	"strings"

	"verif/harness/internal/base"
)

// ---------------------------------------------------------------- layout transformations (C12)

// MoveDecls redistributes movable top-level declarations over the regular (non-test, non-pool) files of each package.
func MoveDecls(p *Prog, r *base.Rand) {
	for _, pk := range p.Pkgs {
		var pool []*File
		for _, f := range pk.Files {
			if f.IsTest() || isPoolFile(f.Name) || f.Name == "noimp.go" {
				continue
			}
			pool = append(pool, f)
		}
		if len(pool) < 2 {
			continue
		}
		// optionally add a fresh file
		if r.Chance(1, 2) {
			nf := &File{Pkg: pk, Name: "zmoved.go", Rename: map[string]string{}}
			for k, v := range pool[0].Rename {
				nf.Rename[k] = v
			}
			pk.Files = append(pk.Files, nf)
			pool = append(pool, nf)
		}
		var all []*Node
		for _, f := range pool {
			var stay []*Node
			for _, d := range f.Decls {
				if d.Pin != "" {
					stay = append(stay, d)
				} else {
					all = append(all, d)
				}
			}
			f.Decls = stay
		}
		for _, d := range all {
			f := pool[r.Intn(len(pool))]
			f.Decls = append(f.Decls, d)
			if d.Fn != nil {
				d.Fn.File = f
			}
			if d.TypeDecl != nil {
				d.TypeDecl.File = f
			}
		}
		var keep []*File
		for _, f := range pk.Files {
			if len(f.Decls) > 0 || f.IsTest() || isPoolFile(f.Name) {
				keep = append(keep, f)
			}
		}
		pk.Files = keep
	}
}

// ShuffleDecls permutes the top-level declarations of every file (in the model, so that the reference model sees the new order).
func ShuffleDecls(p *Prog, r *base.Rand) {
	for _, pk := range p.Pkgs {
		for _, f := range pk.Files {
			base.Shuffle(r, f.Decls)
		}
	}
}

func isPoolFile(name string) bool {
	for _, t := range append([]string{"testdata"}, PoolTokens...) {
		if strings.Contains(name, t) {
			return true
		}
	}
	return false
}

// ---------------------------------------------------------------- @ignore insertion (C07)

type StmtRef struct {
	N      *Node
	Parent *Node
	File   *File
	Depth  int
	Index  int // index in the parent's Kids (or in File.Decls for depth 0)
}

// Statements lists every node of the program with its position in the tree.
func Statements(p *Prog) []StmtRef {
	var out []StmtRef
	for _, pk := range p.Pkgs {
		for _, f := range pk.Files {
			var walk func(n, parent *Node, depth, idx int)
			walk = func(n, parent *Node, depth, idx int) {
				out = append(out, StmtRef{n, parent, f, depth, idx})
				for i, k := range n.Kids {
					walk(k, n, depth+1, i)
				}
			}
			for i, d := range f.Decls {
				walk(d, nil, 0, i)
			}
		}
	}
	return out
}

// IsStatement: a node that is a statement of a function body (not a field, clause or declaration).
func (s StmtRef) IsStatement() bool {
	if s.Depth == 0 || s.Parent == nil {
		return false
	}
	first := ""
	if len(s.N.Pre) > 0 {
		first = strings.TrimSpace(s.N.Pre[0].Text)
	}
	if strings.HasPrefix(first, "case ") || strings.HasPrefix(first, "default:") {
		return false
	}
	// parents that hold statements: functions, blocks, clauses; not struct/interface declarations
	pf := strings.TrimSpace(s.Parent.Pre[0].Text)
	if strings.HasPrefix(pf, "type ") || strings.HasPrefix(pf, "select {") || strings.HasPrefix(pf, "switch {") || strings.HasPrefix(pf, "var (") || strings.HasPrefix(pf, "const (") {
		return false
	}
	return true
}

var ignoreCodeLists = []func(code string, r *base.Rand) (string, string){
	func(c string, r *base.Rand) (string, string) { return c, "exact" },
	func(c string, r *base.Rand) (string, string) { return CategoryOfCode(c), "category" },
	func(c string, r *base.Rand) (string, string) { return "ALL", "all" },
	func(c string, r *base.Rand) (string, string) { return strings.ToLower(c), "lower" },
	func(c string, r *base.Rand) (string, string) {
		return string(c[0]) + strings.ToLower(c[1:]), "mixed-case"
	},
	func(c string, r *base.Rand) (string, string) { return "ZZ99, " + c + " ,IMPL", "several" },
	func(c string, r *base.Rand) (string, string) {
		return c + " because of reasons, see TICKET-1", "trailing-text"
	},
	func(c string, r *base.Rand) (string, string) { return c + "\t// legacy", "trailing-comment" },
	func(c string, r *base.Rand) (string, string) { return "ZZ99", "unknown-code" },
	func(c string, r *base.Rand) (string, string) { // wrong category
		for _, cat := range Categories {
			if cat != CategoryOfCode(c) {
				return cat, "wrong-category"
			}
		}
		return "X", ""
	},
	func(c string, r *base.Rand) (string, string) { // another code of the same category
		cat := CategoryOfCode(c)
		for _, o := range AllCodes {
			if CategoryOfCode(o) == cat && o != c {
				return o, "sibling-code"
			}
		}
		return "X", ""
	},
	func(c string, r *base.Rand) (string, string) { return "all", "all-lower" },
	// the free-form reason after the list happens to start with a word that is also a code word
	func(c string, r *base.Rand) (string, string) {
		return "ZZ99 all writes here are intended", "reason-starts-with-all"
	},
	func(c string, r *base.Rand) (string, string) {
		return c + " " + strings.ToLower(CategoryOfCode(c)) + " rules are checked elsewhere, ALL of them", "reason-starts-with-category"
	},
	func(c string, r *base.Rand) (string, string) {
		for _, cat := range Categories {
			if cat != CategoryOfCode(c) {
				return cat + " " + c + " is what we would need here", "reason-starts-with-the-code"
			}
		}
		return "X", ""
	},
}

// NCodeLists is the number of code-list shapes.
func NCodeLists() int { return len(ignoreCodeLists) }

// CodeList returns the text of code-list shape i for a diagnostic code.
func CodeList(i int, code string, r *base.Rand) (text, name string) {
	return ignoreCodeLists[i%len(ignoreCodeLists)](code, r)
}

func (p *Prog) FindLine(file string, no int) *Line {
	for _, pk := range p.Pkgs {
		for _, f := range pk.Files {
			if f.RelPath() != file {
				continue
			}
			for _, l := range f.flatLines() {
				if l.No == no {
					return l
				}
			}
		}
	}
	return nil
}

// PathTo returns the chain of nodes (top-level declaration first) that contains the line.
func (p *Prog) PathTo(l *Line) (file *File, chain []StmtRef) {
	for _, pk := range p.Pkgs {
		for _, f := range pk.Files {
			var found []StmtRef
			var walk func(n, parent *Node, depth, idx int, acc []StmtRef) bool
			walk = func(n, parent *Node, depth, idx int, acc []StmtRef) bool {
				acc = append(acc, StmtRef{n, parent, f, depth, idx})
				for _, x := range n.Pre {
					if x == l {
						found = append([]StmtRef(nil), acc...)
						return true
					}
				}
				for _, x := range n.Post {
					if x == l {
						found = append([]StmtRef(nil), acc...)
						return true
					}
				}
				for i, k := range n.Kids {
					if walk(k, n, depth+1, i, acc) {
						return true
					}
				}
				return false
			}
			for i, d := range f.Decls {
				if walk(d, nil, 0, i, nil) {
					return f, found
				}
			}
		}
	}
	return nil, nil
}

func (f *File) AddHeaderIgnore(p *Prog, codes string) {
	// real files start with licence headers, build constraints and blank lines: the @ignore comment is one of several
	// comment lines before the package clause
	switch (p.nextID + len(codes)) % 4 {
	case 1:
		f.Header = append(f.Header, p.NewLine("// Copyright 2026 The Authors. All rights reserved."), p.NewLine(""))
	case 2:
		f.Header = append(f.Header, p.NewLine("//go:build !ignore_this_file"), p.NewLine(""))
	case 3:
		f.Header = append(f.Header, p.NewLine("// Code generated by hand. EDIT AT WILL."))
	}
	l := p.NewLine("")
	l.Trail = &Ignore{Codes: codes}
	f.Header = append(f.Header, l)
	if (p.nextID+len(codes))%3 == 0 {
		f.Header = append(f.Header, p.NewLine(""))
	}
}

func DescribePlacement(kind string, where string, list string) string {
	return fmt.Sprintf("%s/%s/%s", kind, where, list)
}

// ---------------------------------------------------------------- spelling variants (C13)

// Respell rewrites how the using packages spell type mentions; returns the render options and the number of respelled mentions.
func Respell(bt *Built, how string, r *base.Rand) (RenderOpts, int) {
	p := bt.P
	n := 0
	isU := map[*Pkg]bool{}
	for _, u := range bt.UPkgs {
		isU[u] = true
	}
	mentions := func(f *File, fn func(l *Line, u *Use)) {
		for _, l := range f.flatLines() {
			for _, u := range l.Uses {
				if u.Kind == UTypeRef && u.T != nil && !u.T.Local && u.T.Pkg != f.Pkg && u.SpellAs == "" && exportedName(u.T.Name) {
					fn(l, u)
				}
			}
		}
	}
	switch how {
	case "import-rename":
		for _, u := range bt.UPkgs {
			for fi, f := range u.Files {
				for di, d := range bt.DPkgs {
					f.Rename[d.Path] = fmt.Sprintf("imp%d%c", di, 'a'+fi%3)
				}
				mentions(f, func(l *Line, u *Use) { n++ })
			}
		}
		return RenderOpts{}, n
	case "paren":
		okSub := map[string]bool{SubVar: true, SubParam: true, SubResult: true, SubField: true, SubOther: true}
		return RenderOpts{Spell: func(l *Line, u *Use) string {
			if l.File == nil || !isU[l.File.Pkg] || !okSub[u.Sub] || u.T.Local || u.SpellAs != "" || !exportedName(u.T.Name) || strings.Contains(l.Text, "{{}}") || strings.Contains(l.Text, `{"k": {}}`) {
				return ""
			}
			if l.Feature == "" {
				l.Feature = "paren-spelling"
			}
			return "(" + TypeText(u.T) + ")"
		}}, countMentions(bt, okSub)
	case "paren-pointer":
		// (*d.T) wherever *d.T is written, (d.T) elsewhere (declarations only: not in composite literals)
		okSub := map[string]bool{SubVar: true, SubParam: true, SubResult: true, SubField: true, SubOther: true}
		return RenderOpts{Spell: func(l *Line, u *Use) string {
			if l.File == nil || !isU[l.File.Pkg] || !okSub[u.Sub] || u.T.Local || u.SpellAs != "" || strings.Contains(l.Text, "{{}}") || strings.Contains(l.Text, `{"k": {}}`) || strings.Contains(l.Text, "new(") || strings.Contains(l.Text, ".(") {
				return ""
			}
			if l.Feature == "" {
				l.Feature = "paren-spelling"
			}
			return "§Q§" + TypeText(u.T) + "§"
		}}, countMentions(bt, okSub)
	case "alias-of-pointer":
		// type P = *d.T declared in another file of the package; "*d.T" is respelled "P", "d.T" is respelled through a plain alias
		b := &B{P: p, R: r}
		names := map[*Type]string{}
		name := func(t *Type) string {
			if names[t] == "" {
				names[t] = fmt.Sprintf("%d%s", len(names), t.Name)
			}
			return names[t]
		}
		spelled := map[*Line]bool{}
		okSub := map[string]bool{SubVar: true, SubParam: true, SubResult: true, SubField: true}
		for _, u := range bt.UPkgs {
			used := map[*Type]bool{}
			for _, f := range u.Files {
				if f.ExtTest {
					continue
				}
				for _, l := range f.flatLines() {
					for _, us := range l.Uses {
						if us.Kind == UTypeRef && us.T != nil && !us.T.Local && us.T.Pkg != f.Pkg && okSub[us.Sub] && us.SpellAs == "" && exportedName(us.T.Name) {
							used[us.T] = true
							spelled[l] = true
							n++
							if l.Feature == "" {
								l.Feature = "alias-spelling"
							}
						}
					}
				}
			}
			af := b.NewFile(u, "aliases.go")
			for _, t := range bt.Types {
				if used[t] {
					af.Decls = append(af.Decls, b.tstmt("type PA"+name(t)+" = *%T", free(refT(t, SubOther), TONL)))
					af.Decls = append(af.Decls, b.tstmt("type VA"+name(t)+" = %T", free(refT(t, SubOther), TONL)))
				}
			}
			if len(af.Decls) == 0 {
				af.Decls = append(af.Decls, &Node{Pre: []*Line{b.line("var " + b.d("pad") + " = 0")}})
			}
		}
		return RenderOpts{Spell: func(l *Line, u *Use) string {
			if !spelled[l] || !okSub[u.Sub] || u.SpellAs != "" || u.T.Local || !exportedName(u.T.Name) {
				return ""
			}
			return "§P§PA" + name(u.T) + "|VA" + name(u.T) + "§"
		}}, n
	case "alias-local", "alias-third-package", "alias-chain":
		b := &B{P: p, R: r}
		names := map[*Type]string{}
		name := func(t *Type) string {
			if names[t] == "" {
				names[t] = fmt.Sprintf("A%d%s", len(names), t.Name)
			}
			return names[t]
		}
		var al *Pkg
		var alf *File
		if how == "alias-third-package" || how == "alias-chain" {
			al = b.NewPkg("m/al", "al", "al")
			alf = b.NewFile(al, "al.go")
			for _, t := range bt.Types {
				if exportedName(t.Name) {
					alf.Decls = append(alf.Decls, b.tstmt("type "+name(t)+" = %T", free(refT(t, SubOther), TONL)))
				}
			}
		}
		spelled := map[*Line]bool{}
		chained := map[*Line]bool{}
		for _, u := range bt.UPkgs {
			used := map[*Type]bool{}
			for _, f := range u.Files {
				if f.ExtTest {
					continue
				}
				mentions(f, func(l *Line, us *Use) {
					used[us.T] = true
					spelled[l] = true
					n++
					if l.Feature == "" {
						l.Feature = "alias-spelling"
					}
				})
				if how == "alias-third-package" || how == "alias-chain" {
					for _, d := range bt.DPkgs {
						f.BlankImp = append(f.BlankImp, d.Path)
					}
				}
			}
			if how == "alias-local" || how == "alias-chain" {
				af := b.NewFile(u, "aliases.go")
				for _, t := range bt.Types {
					if used[t] && how == "alias-local" {
						af.Decls = append(af.Decls, b.tstmt("type "+name(t)+" = %T", free(refT(t, SubOther), TONL)))
					}
					if used[t] && how == "alias-chain" {
						// an alias of an alias declared in a third package: B = al.A = d.T
						ru := free(refT(t, SubOther), TONL)
						n := b.tstmt("type B"+name(t)+" = %T", ru)
						n.Pre[0].Feature = "alias-spelling"
						chained[n.Pre[0]] = true
						af.Decls = append(af.Decls, n)
					}
				}
				if len(af.Decls) == 0 {
					af.Decls = append(af.Decls, &Node{Pre: []*Line{b.line("var " + b.d("pad") + " = 0")}})
				}
			}
		}
		return RenderOpts{Spell: func(l *Line, u *Use) string {
			if chained[l] {
				return "«m/al»." + name(u.T)
			}
			if !spelled[l] {
				return ""
			}
			switch how {
			case "alias-local":
				return name(u.T)
			case "alias-chain":
				return "B" + name(u.T)
			}
			return "«m/al»." + name(u.T)
		}}, n
	}
	return RenderOpts{}, 0
}

func countMentions(bt *Built, okSub map[string]bool) int {
	n := 0
	for _, u := range bt.UPkgs {
		for _, f := range u.Files {
			for _, l := range f.flatLines() {
				for _, us := range l.Uses {
					if us.Kind == UTypeRef && okSub[us.Sub] && !us.T.Local {
						n++
					}
				}
			}
		}
	}
	return n
}

// FlipAnnotations toggles @immutable / @constructor / @testonly on the first type of the first declaring package by
// rewriting its doc comment only (every other byte of the program stays the same). Returns the type.
func FlipAnnotations(bt *Built) *Type {
	t := bt.Types[0]
	for _, f := range t.Pkg.Files {
		for _, d := range f.Decls {
			if d.TypeDecl != t {
				continue
			}
			var doc []string
			has := map[string]bool{}
			for _, l := range d.Doc {
				switch {
				case strings.HasPrefix(l, " @immutable"):
					has["imm"] = true
				case strings.HasPrefix(l, " @constructor"):
					has["ctor"] = true
				case strings.HasPrefix(l, " @testonly"):
					has["tonl"] = true
				default:
					doc = append(doc, l)
				}
			}
			if !has["imm"] {
				doc = append(doc, " @immutable")
			}
			if !has["ctor"] {
				doc = append(doc, " @constructor New"+t.Name)
			}
			if !has["tonl"] {
				doc = append(doc, " @testonly")
			}
			d.Doc = doc
		}
	}
	return t
}
