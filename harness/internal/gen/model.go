// Package gen: program model (PM), renderer and reference model for the generated-program monitors.
//
// The PM is a tree (packages → files → declarations → statements → lines). Every line that mentions an
// annotated-or-not item records a Use; the reference model (Evaluate) maps Uses + context + configuration to a
// three-valued expectation per (line, analyzer): MUST(codes) / NEVER / FREE. Nothing here is taken from /repo.
package gen

import (
	"fmt"
	"sort"
	"strings"
)

// analyzer categories (reference copy, from the book)
const (
	IMM  = "IMM"
	CTOR = "CTOR"
	TONL = "TONL"
	PKGO = "PKGO"
	IMPL = "IMPL"
)

var Categories = []string{IMM, CTOR, TONL, PKGO, IMPL}

var AnalyzerOf = map[string]string{
	IMM: "immutabilitychecker", CTOR: "constructorchecker", TONL: "testonlychecker", PKGO: "packageonlychecker", IMPL: "implementschecker",
}
var CategoryOfAnalyzer = map[string]string{
	"immutabilitychecker": IMM, "constructorchecker": CTOR, "testonlychecker": TONL, "packageonlychecker": PKGO, "implementschecker": IMPL,
}

var AllCodes = []string{"IMM01", "IMM02", "IMM03", "IMM04", "CTOR01", "CTOR02", "CTOR03", "TONL01", "TONL02", "TONL03", "PKGO01", "PKGO02", "PKGO03", "IMPL01", "IMPL02", "IMPL03"}

func CategoryOfCode(c string) string {
	for _, cat := range Categories {
		if strings.HasPrefix(c, cat) && len(c) == len(cat)+2 {
			return cat
		}
	}
	return ""
}

// ---------------------------------------------------------------- model objects

type Allow struct{ Lines [][]string } // one entry per @packageonly line

type Type struct {
	Pkg       *Pkg
	Name      string
	Kind      string // "struct" | "int"
	Immutable bool
	Ctors     []string // nil: no @constructor
	CtorText  string   // spelling of the list in the comment
	TestOnly  bool
	PkgOnly   *Allow
	Mutable   map[string]bool // @mutable fields
	Impl      []string        // raw @implements lines (only used by the all-codes builder)
	ImplCodes []string        // codes the @implements lines must produce on the type's line
	File      *File
	Local     bool     // a function-local type that merely shares a name (decoy)
	DocLines  []string // rendered doc comment (kept so that a twin declaration is byte-identical)
	Grouped   int      // 0 undecided, 1 plain declaration, 2 inside a type ( ... ) group, 3 parenthesised struct type: type T (struct{...})
}

type Func struct {
	Pkg      *Pkg
	Name     string
	Recv     *Type
	TestOnly bool
	PkgOnly  *Allow
	File     *File
}

type Pkg struct {
	Path       string // import path, e.g. m/d0
	Dir        string // directory relative to the module root
	Name       string // declared package name
	Files      []*File
	Imports    map[string]bool // direct imports of the non-test files (computed at render)
	AllImports map[string]bool // direct imports of any file incl. tests (computed at render)
}

type File struct {
	Pkg             *Pkg
	Name            string
	Header          []*Line // lines before the package clause
	Decls           []*Node
	ExtTest         bool              // external test package (package name + "_test")
	Rename          map[string]string // import path -> explicit import name
	PkgTrail        *Ignore           // an @ignore comment trailing the package clause: its scope is that line, i.e. nothing
	PkgTrailKeyword bool              // ... trailing the keyword `package`, the name on the next line
	BlankImp        []string          // blank imports
}

func (f *File) IsTest() bool { return strings.HasSuffix(f.Name, "_test.go") }
func (f *File) RelPath() string {
	return f.Pkg.Dir + "/" + f.Name
}

// EffPkgPath / EffPkgName: the package a file belongs to from the analyzers' point of view.
func (f *File) EffPkgPath() string {
	if f.ExtTest {
		return f.Pkg.Path + "_test"
	}
	return f.Pkg.Path
}
func (f *File) EffPkgName() string {
	if f.ExtTest {
		return f.Pkg.Name + "_test"
	}
	return f.Pkg.Name
}

type Prog struct {
	Module string
	Pkgs   []*Pkg
	nextID int
}

// ---------------------------------------------------------------- uses

type UseKind int

const (
	UFieldAssign UseKind = iota
	UFieldOpAssign
	UFieldIncDec
	UFieldIndexAssign
	URecvAssign
	URecvIncDec
	URead
	ULit      // composite literal of T (also &T{}, elided element)
	UNew      // new(T)
	UVarZero  // var v T (no initialiser), per declared name
	UVarInert // var p *T, var _ T, var v = ... : nothing may be reported by CTOR
	UTypeRef  // a mention of the type by name; Sub says where
	UFuncRef  // mention of a function; Call says whether it is called
	UMethodRef
	UImpl         // the type declaration line of a type carrying @implements (all-codes builder)
	URecvOpAssign // *r += 1 inside a method of T
)

// type mention sub-kinds
const (
	SubLit    = "lit"
	SubVar    = "var"
	SubField  = "field"
	SubParam  = "param"
	SubResult = "result"
	SubRecv   = "recv"
	SubOther  = "other"
)

type Use struct {
	Kind      UseKind
	T         *Type
	Field     string
	Fn        *Func
	Sub       string
	Call      bool
	Free      map[string]bool // analyzer categories for which the statement of the property is silent on this shape
	Feature   string          // the single hostile feature of this use ("" = plain)
	Alias     bool            // the mention goes through an alias name declared elsewhere (PKGO: not a mention of the item)
	SpellAs   string          // explicit spelling of the mention (e.g. a package-local alias declared in another file)
	ImmHolder bool            // a field write promoted through an @immutable struct declared in the writing file
}

type Ignore struct {
	Codes string // text after "@ignore ", verbatim
	Block bool   // rendered as /* @ignore ... */ (FREE form)
}

// IgnoreTokens: the tokens the documented grammar takes from the comment (upper-cased).
func (ig *Ignore) Tokens() []string {
	s := ig.Codes
	// the list is the longest prefix item (ws* , ws* item)* ; what follows after white space is ignored text
	var toks []string
	i := 0
	n := len(s)
	isAl := func(c byte) bool { return c >= '0' && c <= '9' || c >= 'a' && c <= 'z' || c >= 'A' && c <= 'Z' }
	for {
		j := i
		for j < n && isAl(s[j]) {
			j++
		}
		if j == i {
			break
		}
		toks = append(toks, strings.ToUpper(s[i:j]))
		k := j
		for k < n && (s[k] == ' ' || s[k] == '\t') {
			k++
		}
		if k < n && s[k] == ',' {
			k++
			for k < n && (s[k] == ' ' || s[k] == '\t') {
				k++
			}
			if k < n && isAl(s[k]) {
				i = k
				continue
			}
		}
		break
	}
	return toks
}

type Line struct {
	ID      int
	Text    string
	Uses    []*Use
	Trail   *Ignore
	Feature string // hostile feature contributed by the line's shape/context ("" = plain)
	// filled by Render
	File    *File
	No      int
	Out     string // rendered text
	FreeAll bool   // exotic shape outside the supported fragment: nothing is demanded of any analyzer on this line
}

type Node struct {
	Doc      []string // doc comment lines (without leading //)
	Lead     []*Ignore
	LeadGap  bool // a blank line between the lead comments and the node (detached)
	Pre      []*Line
	Kids     []*Node
	Post     []*Line
	Fn       *Func // declaration of a function/method
	TypeDecl *Type
	PkgLevel bool   // package-level var / initialiser declaration
	Tag      string // free-form description for coverage histograms (context class)
	Pin      string // file name this declaration must stay in ("" = movable)
}

func (p *Prog) MaxID() int { return p.nextID }

func (p *Prog) NewLine(text string, uses ...*Use) *Line {
	p.nextID++
	return &Line{ID: p.nextID, Text: text, Uses: uses}
}

// ---------------------------------------------------------------- configuration (reference file filter)

type Cfg struct {
	ScanTests     bool
	ExcludePaths  []string
	ExcludeChecks []string
}

func DefaultCfg() Cfg { return Cfg{ExcludePaths: []string{"testdata"}} }

// Excluded: reference filter, from the statement of C14 — substring of the absolute file name, or _test.go unless scan-tests.
func (c Cfg) Excluded(absPath string) bool {
	for _, e := range c.ExcludePaths {
		if e != "" && strings.Contains(absPath, e) {
			return true
		}
	}
	if !c.ScanTests && strings.HasSuffix(absPath, "_test.go") {
		return true
	}
	return false
}

// ---------------------------------------------------------------- expectations

type LineExp struct {
	Must    map[string]bool // codes that must be reported on this line by this analyzer
	Free    bool            // nothing demanded
	Feature string          // hostile feature (for attribution), "" = plain
	Class   string          // coverage class of the deciding use
}

type Expect struct {
	// per line id, per analyzer category
	ByLine map[int]map[string]*LineExp
	Lines  map[int]*Line
	// once-per-file groups, for metamorphic comparison: category -> "pkg|type" expected reported (true) / free (absent)
	OnceTypes map[string]map[string]string // cat -> key -> "must"|"never"|"free"
	OnceFile  map[string]*OnceFileExp      // cat|file|bare type name -> how many once-per-file reports naming that type are due in the file
}

func (e *Expect) get(l *Line, cat string) *LineExp {
	m := e.ByLine[l.ID]
	if m == nil {
		m = map[string]*LineExp{}
		e.ByLine[l.ID] = m
	}
	x := m[cat]
	if x == nil {
		x = &LineExp{Must: map[string]bool{}}
		m[cat] = x
	}
	return x
}

type ctx struct {
	file     *File
	top      *Node // top-level declaration
	excluded bool
}

func (c *ctx) topFuncName() (name string, isMethod bool) {
	if c.top == nil || c.top.Fn == nil {
		return "", false
	}
	return c.top.Fn.Name, c.top.Fn.Recv != nil
}

type cand struct {
	line    *Line
	cat     string
	code    string
	free    bool
	feature string
	class   string
	once    string // non-empty: once-per-file group key (type identity)
	onceT   *Type
	never   bool // the statement demands silence here (recorded so that NEVER verdicts show up in the coverage classes)
}

func allowed(a *Allow, declPkg *Pkg, usePath, useName string) bool {
	if usePath == declPkg.Path {
		return true
	}
	for _, l := range a.Lines {
		for _, e := range l {
			if e == usePath || e == useName {
				return true
			}
		}
	}
	return false
}

func hasStr(xs []string, s string) bool {
	for _, x := range xs {
		if x == s {
			return true
		}
	}
	return false
}

// Evaluate: the reference model. root is the absolute directory the module is rendered into (the file filter of the
// tool is defined on absolute file names).
func Evaluate(p *Prog, cfg Cfg, root string) *Expect {
	e := &Expect{ByLine: map[int]map[string]*LineExp{}, Lines: map[int]*Line{}, OnceTypes: map[string]map[string]string{TONL: {}, PKGO: {}}}
	excl := func(f *File) bool { return cfg.Excluded(root + "/" + f.RelPath()) }
	effT := func(t *Type) bool { return t != nil && !t.Local && t.File != nil && !excl(t.File) }
	effF := func(f *Func) bool { return f != nil && f.File != nil && !excl(f.File) }

	for _, pk := range p.Pkgs {
		for _, f := range pk.Files {
			c := &ctx{file: f, excluded: excl(f)}
			var cands []cand
			var scopes []scope
			for _, h := range f.Header {
				e.Lines[h.ID] = h
				if h.Trail != nil && !h.Trail.Block {
					scopes = append(scopes, scope{toks: h.Trail.Tokens(), all: true})
				}
			}
			var walk func(n *Node, depth int)
			walk = func(n *Node, depth int) {
				if depth == 0 {
					c.top = n
				}
				first, last := n.extent()
				for _, ig := range n.Lead {
					if first == 0 && last == 0 {
						continue // a comment with no statement after it in its body (node without lines): nothing is in its scope
					}
					if !ig.Block {
						scopes = append(scopes, scope{toks: ig.Tokens(), from: first, to: last})
					} else {
						scopes = append(scopes, scope{toks: ig.Tokens(), from: first, to: last, free: true})
					}
				}
				for _, l := range n.Pre {
					e.Lines[l.ID] = l
					cands = append(cands, evalLine(c, l, effT, effF)...)
					if l.Trail != nil {
						scopes = append(scopes, scope{toks: l.Trail.Tokens(), from: l.ID, to: l.ID, free: l.Trail.Block})
					}
				}
				for _, k := range n.Kids {
					walk(k, depth+1)
				}
				for _, l := range n.Post {
					e.Lines[l.ID] = l
					cands = append(cands, evalLine(c, l, effT, effF)...)
					if l.Trail != nil {
						scopes = append(scopes, scope{toks: l.Trail.Tokens(), from: l.ID, to: l.ID, free: l.Trail.Block})
					}
				}
			}
			for _, d := range f.Decls {
				walk(d, 0)
			}
			if c.excluded {
				continue // every line of an excluded file: nothing may be reported (empty expectation)
			}
			// order of lines in the file, for first-use resolution
			order := map[int]int{}
			for i, l := range f.flatLines() {
				order[l.ID] = i
			}
			suppressed := func(cd cand) (sup bool, free bool) {
				for _, s := range scopes {
					if !(s.all || (order[s.from] <= order[cd.line.ID] && order[cd.line.ID] <= order[s.to])) {
						continue
					}
					if !s.matches(cd.code) {
						continue
					}
					if s.free {
						free = true
						continue
					}
					sup = true
				}
				return
			}
			// per-use codes
			groups := map[string][]cand{}
			var gkeys []string
			for _, cd := range cands {
				if cd.never {
					x := e.get(cd.line, cd.cat)
					mergeFeature(x, cd)
					continue
				}
				if cd.once != "" {
					k := cd.cat + "|" + cd.once
					if _, ok := groups[k]; !ok {
						gkeys = append(gkeys, k)
					}
					groups[k] = append(groups[k], cd)
					continue
				}
				x := e.get(cd.line, cd.cat)
				mergeFeature(x, cd)
				if cd.free {
					x.Free = true
					continue
				}
				if cfg.excludes(cd.code) {
					continue
				}
				sup, fr := suppressed(cd)
				if fr {
					x.Free = true
				}
				if !sup {
					x.Must[cd.code] = true
				}
			}
			// once-per-file codes: first unsuppressed determinate use, in source order
			bare := map[string]map[string]bool{}
			for _, k := range gkeys {
				g := groups[k]
				nm := g[0].cat + "|" + g[0].once[strings.LastIndex(g[0].once, ".")+1:]
				if bare[nm] == nil {
					bare[nm] = map[string]bool{}
				}
				bare[nm][k] = true
			}
			for _, k := range gkeys {
				g := groups[k]
				if nm := g[0].cat + "|" + g[0].once[strings.LastIndex(g[0].once, ".")+1:]; len(bare[nm]) > 1 {
					for i := range g {
						if g[i].feature == "" {
							g[i].feature = "same-name-two-packages"
						}
					}
				}
				sort.SliceStable(g, func(i, j int) bool { return order[g[i].line.ID] < order[g[j].line.ID] })
				anyFree := false
				for _, cd := range g {
					if cd.free {
						anyFree = true
					}
					if _, fr := suppressed(cd); fr {
						anyFree = true
					}
				}
				okey := f.EffPkgPath() + "|" + g[0].once
				cat := g[0].cat
				bareName := g[0].once[strings.LastIndex(g[0].once, ".")+1:]
				ofk := cat + "|" + f.RelPath() + "|" + bareName
				if e.OnceFile == nil {
					e.OnceFile = map[string]*OnceFileExp{}
				}
				if e.OnceFile[ofk] == nil {
					e.OnceFile[ofk] = &OnceFileExp{Cat: cat, File: f.RelPath(), Name: bareName}
				}
				of := e.OnceFile[ofk]
				if anyFree {
					for _, cd := range g {
						x := e.get(cd.line, cd.cat)
						mergeFeature(x, cd)
						x.Free = true
					}
					e.OnceTypes[cat][okey] = "free"
					of.Free = true
					continue
				}
				done := false
				for _, cd := range g {
					x := e.get(cd.line, cd.cat)
					mergeFeature(x, cd)
					if done || cfg.excludes(cd.code) {
						continue
					}
					if sup, _ := suppressed(cd); sup {
						continue
					}
					x.Must[cd.code] = true
					done = true
					of.Must++
					if of.Feature == "" {
						of.Feature = x.Feature
					}
				}
				if e.OnceTypes[cat][okey] != "free" {
					if done {
						e.OnceTypes[cat][okey] = "must"
					} else if e.OnceTypes[cat][okey] == "" {
						e.OnceTypes[cat][okey] = "never"
					}
				}
			}
		}
	}
	return e
}

func mergeFeature(x *LineExp, cd cand) {
	if cd.feature != "" && x.Feature == "" {
		x.Feature = cd.feature
	}
	if x.Class == "" {
		x.Class = cd.class
	}
}

func (c Cfg) excludes(code string) bool {
	cat := CategoryOfCode(code)
	for _, t := range c.ExcludeChecks {
		t = strings.ToUpper(strings.TrimSpace(t))
		if t == "ALL" || t == cat || t == code {
			return true
		}
	}
	return false
}

type scope struct {
	toks     []string
	all      bool
	from, to int // line ids
	free     bool
}

func (s scope) matches(code string) bool {
	cat := CategoryOfCode(code)
	for _, t := range s.toks {
		if t == "ALL" || t == cat || t == code {
			return true
		}
	}
	return false
}

func (n *Node) extent() (first, last int) {
	ls := n.flat(nil)
	if len(ls) == 0 {
		return 0, 0
	}
	return ls[0].ID, ls[len(ls)-1].ID
}

func (n *Node) flat(acc []*Line) []*Line {
	acc = append(acc, n.Pre...)
	for _, k := range n.Kids {
		acc = k.flat(acc)
	}
	return append(acc, n.Post...)
}

func (f *File) flatLines() []*Line {
	var acc []*Line
	acc = append(acc, f.Header...)
	for _, d := range f.Decls {
		acc = d.flat(acc)
	}
	return acc
}

var immCode = map[UseKind]string{UFieldAssign: "IMM01", UFieldOpAssign: "IMM02", UFieldIncDec: "IMM03", UFieldIndexAssign: "IMM04", URecvAssign: "IMM01", URecvIncDec: "IMM03", URecvOpAssign: "IMM02"}

func kindName(k UseKind) string {
	return [...]string{"field=", "field-op=", "field++", "field[i]=", "*recv=", "*recv++", "read", "lit", "new", "var-zero", "var-inert", "typeref", "funcref", "methodref", "impl", "*recv-op="}[k]
}

// evalLine: the per-use part of the reference model (before @ignore and first-use resolution).
func evalLine(c *ctx, l *Line, effT func(*Type) bool, effF func(*Func) bool) (out []cand) {
	if c.excluded {
		return nil
	}
	defer func() {
		// coverage class: use class @ context kind / same or imported package / file kind
		kind := "func"
		switch {
		case c.top == nil:
			kind = "none"
		case c.top.PkgLevel:
			kind = "pkglevel"
		case c.top.Fn == nil:
			kind = "decl"
		case c.top.Fn.TestOnly:
			kind = "testonly-func"
		case c.top.Fn.Recv != nil:
			kind = "method"
		}
		fk := "regular"
		if c.file.ExtTest {
			fk = "ext-test"
		} else if c.file.IsTest() {
			fk = "test"
		}
		for i := range out {
			where := "imported"
			for _, u := range out[i].line.Uses {
				if u.T != nil && u.T.Pkg != nil && u.T.Pkg.Path == c.file.Pkg.Path || u.Fn != nil && u.Fn.Pkg != nil && u.Fn.Pkg.Path == c.file.Pkg.Path {
					where = "same-pkg"
				}
			}
			out[i].class += "@" + kind + "/" + where + "/" + fk
		}
	}()
	f := c.file
	usePath, useName := f.EffPkgPath(), f.EffPkgName()
	topName, topIsMethod := c.topFuncName()
	inTestOnlyBody := c.top != nil && c.top.Fn != nil && c.top.Fn.TestOnly && effF(c.top.Fn)
	for _, u := range l.Uses {
		feat := u.Feature
		if feat == "" {
			feat = l.Feature
		}
		free := func(cat string) bool { return u.Free != nil && u.Free[cat] }
		// the statement speaks of items of the same package and of DIRECTLY imported packages; anything reached only
		// through an intermediate package is FREE
		var tp *Pkg
		if u.T != nil && !u.T.Local {
			tp = u.T.Pkg
		}
		if u.Fn != nil && u.Fn.Pkg != nil {
			tp = u.Fn.Pkg
		}
		if tp != nil && tp.Path != f.Pkg.Path && !f.Pkg.AllImports[tp.Path] {
			for _, cat := range []string{IMM, CTOR, TONL, PKGO} {
				out = append(out, cand{line: l, cat: cat, free: true, feature: "indirect-import", class: cat + "/indirect-import"})
			}
			continue
		}
		switch u.Kind {
		case UFieldAssign, UFieldOpAssign, UFieldIncDec, UFieldIndexAssign, URecvAssign, URecvIncDec, URecvOpAssign:
			t := u.T
			cls := "IMM/" + kindName(u.Kind)
			if free(IMM) {
				out = append(out, cand{line: l, cat: IMM, free: true, feature: feat, class: cls + "/free"})
				continue
			}
			if u.ImmHolder {
				// the promoted field acts as a field of the @immutable holder (no constructors, no marks of its own): a
				// write is due unless the field is marked @mutable where it is declared (and that declaration is read)
				if effT(t) && t.Immutable && t.Mutable[u.Field] {
					out = append(out, cand{line: l, cat: IMM, never: true, feature: feat, class: cls + "/mutable-field"})
				} else {
					out = append(out, cand{line: l, cat: IMM, code: immCode[u.Kind], feature: feat, class: cls + "/immutable-holder"})
				}
				continue
			}
			if !effT(t) || !t.Immutable {
				out = append(out, cand{line: l, cat: IMM, never: true, feature: feat, class: cls + "/type-not-immutable"})
				continue // NEVER
			}
			if u.Field != "" && t.Mutable[u.Field] {
				out = append(out, cand{line: l, cat: IMM, never: true, feature: feat, class: cls + "/mutable-field"})
				continue // NEVER: @mutable
			}
			if hasStr(t.Ctors, topName) && topName != "" {
				if topIsMethod {
					out = append(out, cand{line: l, cat: IMM, free: true, feature: feat, class: cls + "/ctor-named-method"})
					continue
				}
				if usePath == t.Pkg.Path {
					out = append(out, cand{line: l, cat: IMM, never: true, feature: feat, class: cls + "/in-listed-constructor"})
					continue // NEVER: inside a listed constructor of the type's own package
				}
				// a function of another package that merely has the name: MUST
			}
			out = append(out, cand{line: l, cat: IMM, code: immCode[u.Kind], feature: feat, class: cls})
		case URead:
			out = append(out, cand{line: l, cat: IMM, never: true, feature: feat, class: "IMM/read"})
		case ULit, UNew, UVarZero:
			t := u.T
			cls := "CTOR/" + kindName(u.Kind)
			if free(CTOR) {
				out = append(out, cand{line: l, cat: CTOR, free: true, feature: feat, class: cls + "/free"})
				continue
			}
			if !effT(t) || t.Ctors == nil {
				out = append(out, cand{line: l, cat: CTOR, never: true, feature: feat, class: cls + "/type-without-constructor-annotation"})
				continue
			}
			if hasStr(t.Ctors, topName) && topName != "" {
				if topIsMethod {
					out = append(out, cand{line: l, cat: CTOR, free: true, feature: feat, class: cls + "/ctor-named-method"})
					continue
				}
				if usePath == t.Pkg.Path {
					out = append(out, cand{line: l, cat: CTOR, never: true, feature: feat, class: cls + "/in-listed-constructor"})
					continue
				}
			}
			code := map[UseKind]string{ULit: "CTOR01", UNew: "CTOR02", UVarZero: "CTOR03"}[u.Kind]
			out = append(out, cand{line: l, cat: CTOR, code: code, feature: feat, class: cls})
		case UVarInert:
			if effT(u.T) && u.T.Ctors != nil {
				out = append(out, cand{line: l, cat: CTOR, never: true, feature: feat, class: "CTOR/var-inert"})
			}
		case UTypeRef:
			t := u.T
			// TONL01
			if effT(t) && t.TestOnly && !f.IsTest() && !inTestOnlyBody && u.Sub == SubRecv && !free(TONL) {
				// the receiver of an ordinary method of a @testonly type (a mock implementing a production interface, as in
				// the book's examples) is not one of the uses the statement lists: never reported
				out = append(out, cand{line: l, cat: TONL, never: true, feature: feat, class: "TONL/type-recv/never-a-use"})
			} else if effT(t) && t.TestOnly && !f.IsTest() && !inTestOnlyBody {
				cls := "TONL/type-" + u.Sub
				fr := free(TONL) || u.Sub == SubRecv || u.Sub == SubOther
				if c.top != nil && c.top.Fn != nil && c.top.Fn.TestOnly && effF(c.top.Fn) {
					fr = true
				}
				out = append(out, cand{line: l, cat: TONL, code: "TONL01", free: fr, feature: feat, class: cls, once: t.Pkg.Path + "." + t.Name, onceT: t})
			} else if effT(t) && t.TestOnly && !f.IsTest() && inTestOnlyBody {
				// signature/receiver lines of a @testonly declaration are part of the declaration node: silent
				if u.Sub == SubParam || u.Sub == SubResult || u.Sub == SubRecv {
					if isSignatureLine(c, l) {
						out = append(out, cand{line: l, cat: TONL, code: "TONL01", free: true, feature: feat, class: "TONL/type-signature-of-testonly", once: t.Pkg.Path + "." + t.Name, onceT: t})
					}
				}
			}
			if effT(t) && t.TestOnly && f.IsTest() {
				out = append(out, cand{line: l, cat: TONL, never: true, feature: feat, class: "TONL/type-" + u.Sub + "/in-test-file"})
			} else if effT(t) && t.TestOnly && inTestOnlyBody && !isSignatureLine(c, l) {
				out = append(out, cand{line: l, cat: TONL, never: true, feature: feat, class: "TONL/type-" + u.Sub + "/in-testonly-body"})
			}
			if effT(t) && t.PkgOnly != nil && (usePath == t.Pkg.Path || allowed(t.PkgOnly, t.Pkg, usePath, useName)) && !u.Alias {
				why := "/allowed-package"
				if usePath == t.Pkg.Path {
					why = "/declaring-package"
				}
				out = append(out, cand{line: l, cat: PKGO, never: true, feature: feat, class: "PKGO/type-" + u.Sub + why})
			}
			// PKGO01
			if effT(t) && t.PkgOnly != nil && usePath != t.Pkg.Path {
				cls := "PKGO/type-" + u.Sub
				if u.Alias {
					out = append(out, cand{line: l, cat: PKGO, code: "PKGO01", free: true, feature: feat, class: cls + "/alias", once: t.Pkg.Path + "." + t.Name})
				} else if !allowed(t.PkgOnly, t.Pkg, usePath, useName) {
					out = append(out, cand{line: l, cat: PKGO, code: "PKGO01", free: free(PKGO), feature: feat, class: cls, once: t.Pkg.Path + "." + t.Name})
				}
			}
		case UFuncRef:
			fn := u.Fn
			if effF(fn) && fn.TestOnly && (f.IsTest() || inTestOnlyBody) {
				out = append(out, cand{line: l, cat: TONL, never: true, feature: feat, class: "TONL/func-ref/exempt-context"})
			}
			if effF(fn) && fn.PkgOnly != nil && (usePath == fn.Pkg.Path || allowed(fn.PkgOnly, fn.Pkg, usePath, useName)) {
				out = append(out, cand{line: l, cat: PKGO, never: true, feature: feat, class: "PKGO/func-ref/allowed"})
			}
			if effF(fn) && fn.TestOnly && !f.IsTest() && !inTestOnlyBody {
				if u.Call {
					out = append(out, cand{line: l, cat: TONL, code: "TONL02", free: free(TONL), feature: feat, class: "TONL/func-call"})
				} else {
					out = append(out, cand{line: l, cat: TONL, free: true, feature: feat, class: "TONL/func-value"})
				}
			}
			if effF(fn) && fn.PkgOnly != nil && usePath != fn.Pkg.Path && !allowed(fn.PkgOnly, fn.Pkg, usePath, useName) {
				cls := "PKGO/func-value"
				if u.Call {
					cls = "PKGO/func-call"
				}
				out = append(out, cand{line: l, cat: PKGO, code: "PKGO02", free: free(PKGO), feature: feat, class: cls})
			}
		case UMethodRef:
			fn := u.Fn
			if effF(fn) && fn.TestOnly && (f.IsTest() || inTestOnlyBody) {
				out = append(out, cand{line: l, cat: TONL, never: true, feature: feat, class: "TONL/method-ref/exempt-context"})
			}
			if effF(fn) && fn.PkgOnly != nil && (usePath == fn.Pkg.Path || allowed(fn.PkgOnly, fn.Pkg, usePath, useName)) {
				out = append(out, cand{line: l, cat: PKGO, never: true, feature: feat, class: "PKGO/method-ref/allowed"})
			}
			if effF(fn) && fn.TestOnly && !f.IsTest() && !inTestOnlyBody {
				if u.Call {
					out = append(out, cand{line: l, cat: TONL, code: "TONL03", free: free(TONL), feature: feat, class: "TONL/method-call"})
				} else {
					out = append(out, cand{line: l, cat: TONL, free: true, feature: feat, class: "TONL/method-value"})
				}
			}
			if effF(fn) && fn.PkgOnly != nil && usePath != fn.Pkg.Path && !allowed(fn.PkgOnly, fn.Pkg, usePath, useName) {
				cls := "PKGO/method-value"
				if u.Call {
					cls = "PKGO/method-call"
				}
				out = append(out, cand{line: l, cat: PKGO, code: "PKGO03", free: free(PKGO), feature: feat, class: cls})
			}
		case UImpl:
			if effT(u.T) {
				for _, code := range u.T.ImplCodes {
					out = append(out, cand{line: l, cat: IMPL, code: code, feature: feat, class: "IMPL/" + code})
				}
			}
		}
	}
	return out
}

func isSignatureLine(c *ctx, l *Line) bool {
	if c.top == nil {
		return false
	}
	for _, x := range c.top.Pre {
		if x == l {
			return true
		}
	}
	return false
}

// ---------------------------------------------------------------- comparison

type Obs struct {
	File string // path relative to the module root
	Line int
	Col  int
	Cat  string // category of the analyzer that reported
	Code string
	Msg  string
}

// OnceFileExp: the once-per-file codes name the type in their message; a file owes one report per (type, file) group.
type OnceFileExp struct {
	Cat, File, Name, Feature string
	Must                     int
	Free                     bool
}

type Mismatch struct {
	Key    string // cat/direction/feature
	Detail string
}

// Compare applies the monitor rule: per line and analyzer, observed codes must equal the MUST set unless FREE.
func Compare(p *Prog, e *Expect, obs []Obs) (mm []Mismatch, judged int, classes map[string]int) {
	classes = map[string]int{}
	byLoc := map[string]map[string]map[string]bool{} // file:line -> cat -> code
	for _, o := range obs {
		k := fmt.Sprintf("%s:%d", o.File, o.Line)
		if byLoc[k] == nil {
			byLoc[k] = map[string]map[string]bool{}
		}
		if byLoc[k][o.Cat] == nil {
			byLoc[k][o.Cat] = map[string]bool{}
		}
		byLoc[k][o.Cat][o.Code] = true
	}
	seenLoc := map[string]bool{}
	for id, l := range e.Lines {
		if l.File == nil {
			continue
		}
		k := fmt.Sprintf("%s:%d", l.File.RelPath(), l.No)
		seenLoc[k] = true
		if l.FreeAll {
			classes["exotic=FREE"]++
			continue
		}
		for _, cat := range Categories {
			var x *LineExp
			if m := e.ByLine[id]; m != nil {
				x = m[cat]
			}
			got := byLoc[k][cat]
			if x != nil && x.Free {
				classes[x.Class+"=FREE"]++
				continue
			}
			var must map[string]bool
			feat, class := "", ""
			if x != nil {
				must, feat, class = x.Must, x.Feature, x.Class
			}
			if feat == "" {
				feat = l.Feature
			}
			if feat == "" {
				feat = "plain"
			}
			if x != nil {
				judged++
				if len(must) > 0 {
					classes[class+"=MUST"]++
				} else {
					classes[class+"=NEVER"]++
				}
			} else if len(l.Uses) > 0 || len(got) > 0 {
				judged++
			}
			for c := range must {
				if !got[c] {
					mm = append(mm, Mismatch{Key: cat + "/missed/" + feat, Detail: fmt.Sprintf("%s: expected %s (class %s) not reported; line: %q; observed here: %v", k, c, class, strings.TrimSpace(l.shown()), keys(got))})
				}
			}
			for c := range got {
				if !must[c] {
					mm = append(mm, Mismatch{Key: cat + "/spurious/" + feat, Detail: fmt.Sprintf("%s: %s reported but the model says NEVER/other (class %s, must=%v); line: %q", k, c, class, keys(must), strings.TrimSpace(l.shown()))})
				}
			}
		}
	}
	for k, cats := range byLoc {
		if seenLoc[k] {
			continue
		}
		for cat, cs := range cats {
			mm = append(mm, Mismatch{Key: cat + "/spurious/non-site-line", Detail: fmt.Sprintf("%s: %v reported on a line that is not part of the program model", k, keys(cs))})
		}
	}
	// once-per-file codes: every (file, type) group that owes a report must be named by one
	for _, of := range e.OnceFile {
		if of.Free || of.Must == 0 {
			continue
		}
		code, pat := "TONL01", "type "+of.Name+" is marked @testonly"
		if of.Cat == PKGO {
			code, pat = "PKGO01", of.Name+" type is @packageonly"
		}
		seen := map[string]bool{}
		for _, o := range obs {
			if o.File == of.File && o.Code == code && strings.Contains(o.Msg, pat) {
				seen[fmt.Sprintf("%d:%d|%s", o.Line, o.Col, firstLine(o.Msg))] = true
			}
		}
		if len(seen) < of.Must {
			feat := of.Feature
			if feat == "" {
				feat = "plain"
			}
			mm = append(mm, Mismatch{Key: of.Cat + "/missed-type/" + feat, Detail: fmt.Sprintf("%s: %d %s report(s) naming type %s are due in this file (one per annotated type of that name used here), %d found", of.File, of.Must, code, of.Name, len(seen))})
		}
	}
	sort.Slice(mm, func(i, j int) bool { return mm[i].Detail < mm[j].Detail })
	return
}

func firstLine(s string) string {
	if i := strings.IndexByte(s, '\n'); i >= 0 {
		return s[:i]
	}
	return s
}

func keys(m map[string]bool) []string {
	var ks []string
	for k := range m {
		ks = append(ks, k)
	}
	sort.Strings(ks)
	return ks
}

func (l *Line) shown() string {
	if l.Out != "" {
		return l.Out
	}
	return l.Text
}
