package gen

import (
	"fmt"
	"go/scanner"
	"go/token"
	"regexp"
	"sort"
	"strings"
	"sync"

	"verif/harness/internal/base"
)

// RenderOpts selects one rendering (layout / spelling variant) of a program model.
type RenderOpts struct {
	Noise        *base.Rand                   // blank lines and ordinary comments between declarations and statements
	Ugly         *base.Rand                   // extra intra-line white space at token boundaries
	RenameLocals bool                         // v12 -> w12x
	Spell        func(l *Line, u *Use) string // override the spelling of a type mention ("" = default)
	NearMiss     *base.Rand                   // replace every annotation doc line by a near miss (C09)
}

var qualRe = regexp.MustCompile(`«([^»]+)»\.`)
var qualBareRe = regexp.MustCompile(`‹([^›]+)›`)
var typeTok = regexp.MustCompile(`⟦(\d+)⟧`)
var localRe = regexp.MustCompile(`\bv(\d+)\b`)
var ptrSpellStar = regexp.MustCompile(`\*§P§([^|§]+)\|([^§]+)§`)
var ptrSpellPlain = regexp.MustCompile(`§P§([^|§]+)\|([^§]+)§`)
var parenPtrStar = regexp.MustCompile(`\*§Q§([^§]+)§`)
var parenPtrPlain = regexp.MustCompile(`§Q§([^§]+)§`)

// TypeText is the default spelling of a type mention.
func TypeText(t *Type) string {
	if t.Local {
		return t.Name
	}
	return "«" + t.Pkg.Path + "»." + t.Name
}

// Render writes line numbers into the model (Line.File / Line.No) and returns path -> content.
func Render(p *Prog, o RenderOpts) map[string]string {
	out := map[string]string{}
	out["go.mod"] = "module " + p.Module + "\n\ngo 1.25\n"
	byPath := map[string]*Pkg{}
	for _, pk := range p.Pkgs {
		byPath[pk.Path] = pk
	}
	for _, pk := range p.Pkgs {
		pk.Imports = map[string]bool{}
		pk.AllImports = map[string]bool{}
		for _, f := range pk.Files {
			var body []string // lines after the import block
			type pend struct {
				l   *Line
				idx int
			}
			var pends []pend
			imports := map[string]bool{}
			expand := func(l *Line) string {
				s := typeTok.ReplaceAllStringFunc(l.Text, func(m string) string {
					var k int
					fmt.Sscanf(m, "⟦%d⟧", &k)
					u := l.Uses[k]
					if u.SpellAs != "" {
						return u.SpellAs
					}
					if o.Spell != nil {
						if sp := o.Spell(l, u); sp != "" {
							return sp
						}
					}
					return TypeText(u.T)
				})
				// pointer spellings: "*" + §P§ptrAlias|plainAlias§ -> ptrAlias ; without a leading star -> plainAlias
				s = ptrSpellStar.ReplaceAllString(s, "$1")
				s = ptrSpellPlain.ReplaceAllString(s, "$2")
				s = parenPtrStar.ReplaceAllString(s, "(*$1)")
				s = parenPtrPlain.ReplaceAllString(s, "($1)")
				s = qualBareRe.ReplaceAllStringFunc(s, func(m string) string { // ‹path› = the bare qualifier (used as a local variable name)
					path := m[len("‹") : len(m)-len("›")]
					imports[path] = true
					if r, ok := f.Rename[path]; ok && r != "." {
						return r
					}
					if pk2, ok := byPath[path]; ok {
						return pk2.Name
					}
					return path[strings.LastIndex(path, "/")+1:]
				})
				s = qualRe.ReplaceAllStringFunc(s, func(m string) string {
					path := m[len("«") : len(m)-len("».")]
					if path == f.EffPkgPath() {
						return ""
					}
					imports[path] = true
					if r, ok := f.Rename[path]; ok {
						if r == "." {
							return "" // dot import: the bare identifier
						}
						return r + "."
					}
					if pk2, ok := byPath[path]; ok {
						return pk2.Name + "."
					}
					return path[strings.LastIndex(path, "/")+1:] + "."
				})
				if o.RenameLocals {
					s = localRe.ReplaceAllString(s, "w${1}x")
				}
				return s
			}
			expandQual := func(s string) string { // package qualifiers inside doc comments (e.g. @implements «path».I)
				return qualRe.ReplaceAllStringFunc(s, func(m string) string {
					path := m[len("«") : len(m)-len("».")]
					if path == f.EffPkgPath() {
						return ""
					}
					imports[path] = true
					if r, ok := f.Rename[path]; ok {
						return r + "."
					}
					if pk2, ok := byPath[path]; ok {
						return pk2.Name + "."
					}
					return path[strings.LastIndex(path, "/")+1:] + "."
				})
			}
			emit := func(indent int, l *Line) {
				txt := expand(l)
				if o.Ugly != nil && txt != "" {
					txt = uglify(txt, o.Ugly)
				}
				s := strings.Repeat("\t", indent) + txt
				if l.Trail != nil {
					if l.Trail.Block {
						s += " /* @ignore " + l.Trail.Codes + " */"
					} else {
						s += " // @ignore " + l.Trail.Codes
					}
				}
				body = append(body, s)
				l.Out = s
				pends = append(pends, pend{l, len(body) - 1})
			}
			noise := func(indent int) {
				if o.Noise == nil {
					return
				}
				switch o.Noise.Intn(6) {
				case 0:
					body = append(body, "")
				case 1:
					body = append(body, strings.Repeat("\t", indent)+"// ordinary remark about immutable things, see @constructor docs")
				case 2:
					body = append(body, "", strings.Repeat("\t", indent)+"// note", "")
				}
			}
			var walk func(n *Node, indent int)
			walk = func(n *Node, indent int) {
				if indent == 0 {
					body = append(body, "")
				}
				for _, ig := range n.Lead {
					if ig.Block {
						body = append(body, strings.Repeat("\t", indent)+"/* @ignore "+ig.Codes+" */")
					} else {
						body = append(body, strings.Repeat("\t", indent)+"// @ignore "+ig.Codes)
					}
				}
				if n.LeadGap && len(n.Lead) > 0 && len(n.Doc) == 0 {
					body = append(body, "")
				}
				detach := false
				for _, d := range n.Doc {
					if o.NearMiss != nil && strings.HasPrefix(d, " @") {
						txt, det := nearMiss(d, o.NearMiss)
						detach = detach || det
						for _, part := range strings.Split(txt, "\n") {
							body = append(body, strings.Repeat("\t", indent)+part)
						}
						continue
					}
					body = append(body, strings.Repeat("\t", indent)+"//"+expandQual(d))
				}
				if detach {
					body = append(body, "")
				}
				for i, l := range n.Pre {
					in := indent
					if i > 0 && strings.HasPrefix(l.Text, "case ") || i > 0 && strings.HasPrefix(l.Text, "default:") {
						in = indent
					}
					emit(in, l)
				}
				for _, k := range n.Kids {
					noise(indent + 1)
					walk(k, indent+1)
				}
				for _, l := range n.Post {
					emit(indent, l)
				}
			}
			for _, d := range f.Decls {
				noise(0)
				walk(d, 0)
			}
			// assemble
			var head []string
			var headLines []*Line
			for _, h := range f.Header {
				s := h.Text
				if h.Trail != nil {
					s = "// @ignore " + h.Trail.Codes
				}
				head = append(head, s)
				headLines = append(headLines, h)
			}
			var lines []string
			if o.Noise != nil && len(head) > 0 {
				// blank lines and ordinary comments between the header comments and before the package clause
				var noisy []string
				var noisyLines []*Line
				for i, h := range head {
					noisy = append(noisy, h)
					noisyLines = append(noisyLines, headLines[i])
					switch o.Noise.Intn(4) {
					case 0:
						noisy = append(noisy, "")
						noisyLines = append(noisyLines, nil)
					case 1:
						noisy = append(noisy, "", "// an ordinary remark about this file", "")
						noisyLines = append(noisyLines, nil, nil, nil)
					}
				}
				head, headLines = noisy, noisyLines
			}
			lines = append(lines, head...)
			if f.PkgTrail != nil && f.PkgTrailKeyword {
				// the comment trails the keyword, the name follows on the next line (valid Go; gofmt keeps it)
				lines = append(lines, "package // @ignore "+f.PkgTrail.Codes, f.EffPkgName())
			} else if f.PkgTrail != nil {
				lines = append(lines, "package "+f.EffPkgName()+" // @ignore "+f.PkgTrail.Codes)
			} else {
				lines = append(lines, "package "+f.EffPkgName())
			}
			var imps []string
			for path := range imports {
				imps = append(imps, path)
			}
			for _, bi := range f.BlankImp {
				if !imports[bi] {
					imps = append(imps, "_ "+bi)
				}
			}
			sort.Strings(imps)
			if len(imps) > 0 {
				lines = append(lines, "", "import (")
				for _, path := range imps {
					if strings.HasPrefix(path, "_ ") {
						lines = append(lines, "\t_ \""+path[2:]+"\"")
					} else if r, ok := f.Rename[path]; ok {
						lines = append(lines, "\t"+r+" \""+path+"\"")
					} else {
						lines = append(lines, "\t\""+path+"\"")
					}
				}
				lines = append(lines, ")")
			}
			offset := len(lines)
			lines = append(lines, body...)
			for i, h := range headLines {
				if h != nil {
					h.File, h.No = f, i+1
				}
			}
			for _, pe := range pends {
				pe.l.File, pe.l.No = f, offset+pe.idx+1
			}
			out[f.RelPath()] = strings.Join(lines, "\n") + "\n"
			for path := range imports {
				pk.AllImports[path] = true
			}
			for _, bi := range f.BlankImp {
				pk.AllImports[bi] = true
			}
			if !f.IsTest() {
				for path := range imports {
					pk.Imports[path] = true
				}
				for _, bi := range f.BlankImp {
					pk.Imports[bi] = true
				}
			}
		}
	}
	return out
}

// uglify inserts extra white space at token boundaries of one source line (never a line break).
func uglify(line string, r *base.Rand) string {
	fs := token.NewFileSet()
	file := fs.AddFile("", fs.Base(), len(line))
	var s scanner.Scanner
	errs := 0
	s.Init(file, []byte(line), func(token.Position, string) { errs++ }, scanner.ScanComments)
	type tk struct{ off, end int }
	var toks []tk
	for {
		pos, tok, lit := s.Scan()
		if tok == token.EOF {
			break
		}
		if tok == token.SEMICOLON && lit == "\n" {
			continue
		}
		off := file.Offset(pos)
		l := len(lit)
		if lit == "" {
			l = len(tok.String())
		}
		toks = append(toks, tk{off, off + l})
	}
	if errs > 0 || len(toks) < 2 {
		return line
	}
	var b strings.Builder
	b.WriteString(line[:toks[0].end])
	for i := 1; i < len(toks); i++ {
		gap := line[toks[i-1].end:toks[i].off]
		b.WriteString(gap)
		switch r.Intn(5) {
		case 0:
			b.WriteString(" ")
		case 1:
			b.WriteString("  ")
		case 2:
			b.WriteString("\t")
		}
		b.WriteString(line[toks[i].off:toks[i].end])
	}
	b.WriteString(line[toks[len(toks)-1].end:])
	return b.String()
}

// NearMissKinds counts how often each near-miss shape was rendered.
var NearMissKinds = map[string]int{}
var nearMissMu sync.Mutex

// nearMiss turns a doc line " @keyword args" into a comment that must NOT be recognised as an annotation.
func nearMiss(d string, r *base.Rand) (text string, detach bool) {
	ann := strings.TrimPrefix(d, " ") // "@immutable", "@constructor New", ...
	kw := ann
	rest := ""
	if i := strings.IndexAny(ann, " \t"); i >= 0 {
		kw, rest = ann[:i], ann[i:]
	}
	kind := ""
	switch r.Intn(15) {
	case 14:
		// a block comment whose inner line is a commented-out annotation (an older version of the declaration kept around)
		kind, text = "block-comment-with-inner-line-comment", "/*\n// "+ann+"\ntype Old struct{}\n*/"
	case 12:
		kind, text = "other-case-then-lowercase-mention", "// @"+strings.ToUpper(kw[1:2])+kw[2:]+rest+" is how the old tool spelled it, we never adopted "+kw
	case 13:
		kind, text = "upper-case-then-lowercase-mention", "// "+strings.ToUpper(kw)+rest+" (see "+kw+")"
	case 0:
		kind, text = "mid-sentence", "// this type follows the "+ann+" convention"
	case 1:
		kind, text = "block-comment", "/* "+ann+" */"
	case 2:
		kind, text = "capitalised", "// @"+strings.ToUpper(kw[1:2])+kw[2:]+rest
	case 3:
		kind, text = "upper-case", "// "+strings.ToUpper(kw)+rest
	case 4:
		kind, text = "longer-word", "// "+kw+"s"+rest
	case 5:
		kind, text = "blank-after-at", "// @ "+kw[1:]+rest
	case 6:
		kind, text = "dash-prefix", "// -"+ann
	case 7:
		kind, text = "commented-out", "// // "+ann
	case 8:
		kind, text = "triple-slash", "/// "+ann
	case 9:
		kind, text, detach = "detached-by-blank-line", "// "+ann, true
	case 10:
		kind, text = "label-prefix", "// note: "+ann
	default:
		kind, text = "no-at-sign", "// "+kw[1:]+rest
	}
	nearMissMu.Lock()
	NearMissKinds[kind]++
	nearMissMu.Unlock()
	return
}
