package gen

import (
	"fmt"
	"go/ast"
	"go/parser"
	"go/token"
	"os"
	"path/filepath"
	"sort"
	"strings"

	"verif/harness/internal/base"
)

// InjectStats reports what an injection round did.
type InjectStats struct {
	Files, Types, Funcs, Fields, Ignores, Annotations int
}

// InjectAnnotations inserts annotation comment lines above randomly chosen top-level declarations (and struct fields)
// of every non-test .go file below dir. Only whole comment lines are inserted, directly above a declaration line, so the
// package keeps compiling. rate is the percentage (0..100) of declarations that receive something.
func InjectAnnotations(dir string, r *base.Rand, rate int) (InjectStats, error) {
	var st InjectStats
	var files []string
	filepath.Walk(dir, func(p string, info os.FileInfo, err error) error {
		if err == nil && !info.IsDir() && strings.HasSuffix(p, ".go") && !strings.HasSuffix(p, "_test.go") && !strings.Contains(p, "/testdata/") {
			files = append(files, p)
		}
		return nil
	})
	sort.Strings(files)
	// per directory: function names and interface names (targets for @constructor / @implements)
	type dirInfo struct{ funcs, ifaces []string }
	dirs := map[string]*dirInfo{}
	parsed := map[string]*ast.File{}
	fset := token.NewFileSet()
	for _, fn := range files {
		f, err := parser.ParseFile(fset, fn, nil, parser.ParseComments|parser.SkipObjectResolution)
		if err != nil {
			continue
		}
		parsed[fn] = f
		d := filepath.Dir(fn)
		if dirs[d] == nil {
			dirs[d] = &dirInfo{}
		}
		for _, decl := range f.Decls {
			switch x := decl.(type) {
			case *ast.FuncDecl:
				if x.Recv == nil {
					dirs[d].funcs = append(dirs[d].funcs, x.Name.Name)
				}
			case *ast.GenDecl:
				if x.Tok == token.TYPE {
					for _, s := range x.Specs {
						ts := s.(*ast.TypeSpec)
						if _, ok := ts.Type.(*ast.InterfaceType); ok && ts.TypeParams == nil {
							dirs[d].ifaces = append(dirs[d].ifaces, ts.Name.Name)
						}
					}
				}
			}
		}
	}
	hit := func() bool { return r.Intn(100) < rate }
	for _, fn := range files {
		f := parsed[fn]
		if f == nil {
			continue
		}
		di := dirs[filepath.Dir(fn)]
		ins := map[int][]string{} // 1-based line -> comment lines to insert above it
		add := func(pos token.Pos, s string) {
			p := fset.Position(pos)
			indent := ""
			if p.Column > 1 {
				indent = "\t"
			}
			ins[p.Line] = append(ins[p.Line], indent+s)
			st.Annotations++
		}
		typeAnn := func(at token.Pos, ts *ast.TypeSpec) {
			immutable := false
			if r.Chance(3, 5) {
				add(at, "// @immutable")
				immutable = true
			}
			if r.Chance(1, 2) {
				var names []string
				for k := 0; k < 1+r.Intn(3); k++ {
					if len(di.funcs) > 0 && r.Chance(3, 4) {
						names = append(names, base.Pick(r, di.funcs))
					} else {
						names = append(names, "MissingCtor"+fmt.Sprint(k))
					}
				}
				add(at, "// @constructor "+strings.Join(names, ", "))
			}
			if r.Chance(1, 5) {
				add(at, "// @testonly")
			}
			if r.Chance(1, 3) {
				add(at, "// @packageonly "+base.Pick(r, []string{"", "x, y/z", "main", "golang.org/x/tools/go/analysis", "assert"}))
			}
			if r.Chance(2, 5) {
				var tgt string
				switch r.Intn(7) {
				case 0, 1:
					if len(di.ifaces) > 0 {
						tgt = base.Pick(r, di.ifaces)
					} else {
						tgt = "NoSuchIface"
					}
				case 2:
					tgt = "io.Reader"
				case 3:
					tgt = "&fmt.Stringer"
				case 4:
					tgt = "nosuchpkg.Iface"
				case 5:
					tgt = "&error"
				default:
					tgt = "&" + ts.Name.Name
				}
				add(at, "// @implements "+tgt)
			}
			if st, ok := ts.Type.(*ast.StructType); ok && immutable && st.Fields != nil {
				for _, fld := range st.Fields.List {
					if len(fld.Names) > 0 && r.Chance(1, 3) {
						add(fld.Pos(), "// @mutable")
					}
				}
			}
		}
		for _, decl := range f.Decls {
			switch x := decl.(type) {
			case *ast.FuncDecl:
				if !hit() {
					continue
				}
				st.Funcs++
				if r.Bool() {
					add(x.Pos(), "// @testonly")
				} else {
					add(x.Pos(), "// @packageonly "+base.Pick(r, []string{"", "a, b", "main"}))
				}
				if r.Chance(1, 6) {
					add(x.Pos(), "// @ignore "+base.Pick(r, []string{"ALL", "IMM", "CTOR01, TONL", "pkgo02", "ZZ9"}))
					st.Ignores++
				}
			case *ast.GenDecl:
				if x.Tok != token.TYPE {
					if x.Tok == token.VAR && r.Intn(100) < rate/4 {
						add(x.Pos(), "// @ignore "+base.Pick(r, []string{"ALL", "CTOR", "IMM01"}))
						st.Ignores++
					}
					continue
				}
				for _, s := range x.Specs {
					ts := s.(*ast.TypeSpec)
					if !hit() {
						continue
					}
					st.Types++
					at := ts.Pos()
					if !x.Lparen.IsValid() {
						at = x.Pos()
					}
					typeAnn(at, ts)
				}
			}
		}
		if r.Intn(100) < rate/3 {
			ins[1] = append([]string{"// @ignore " + base.Pick(r, []string{"IMPL", "TONL01", "ZZ"})}, ins[1]...)
			st.Ignores++
		}
		if len(ins) == 0 {
			continue
		}
		b, err := os.ReadFile(fn)
		if err != nil {
			return st, err
		}
		lines := strings.Split(string(b), "\n")
		var out []string
		for i, l := range lines {
			out = append(out, ins[i+1]...)
			out = append(out, l)
		}
		os.Chmod(fn, 0o644)
		if err := os.WriteFile(fn, []byte(strings.Join(out, "\n")), 0o644); err != nil {
			return st, err
		}
		st.Files++
	}
	return st, nil
}
