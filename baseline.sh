#!/bin/bash
# the repository's pinned test suite with the verif guard OFF (no -tags verif)
cd /repo || exit 2
. /verif/env.sh
go test -mod=mod -vet=off -count=1 -timeout 25m ./...
