#!/bin/bash
# the repository's pinned test suite with the verif guard OFF (no -tags verif)
. /verif/env.sh
cd "$VERIF_REPO" || exit 2
go test -mod=mod -vet=off -count=1 -timeout 25m ./...
