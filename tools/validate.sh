#!/bin/bash
# validates MANIFEST.json and every evidence file against the schemas
python3-vt - <<'PY'
import json,jsonschema,glob,sys
ok=True
try:
    jsonschema.validate(json.load(open('/verif/MANIFEST.json')),json.load(open('/root/.vp/MANIFEST.schema.json')))
except Exception as e:
    ok=False; print("MANIFEST:",str(e)[:300])
sch=json.load(open('/root/.vp/EVIDENCE.schema.json'))
m=json.load(open('/verif/MANIFEST.json'))
for c in m['checks']:
    f=c['evidence_file']
    try:
        jsonschema.validate(json.load(open(f)),sch)
    except Exception as e:
        ok=False; print(f,":",str(e)[:300])
print("valid" if ok else "INVALID")
sys.exit(0 if ok else 1)
PY
