#!/bin/bash
# usage: tools/sweep.sh <tier> <seed> [ids...]  — runs checks from the directory this script lives in (snapshot-safe)
ROOT="$(cd "$(dirname "$0")/.." && pwd)"
cd "$ROOT"
TIER="$1"; SEED="$2"; shift 2
IDS="$@"; [ -z "$IDS" ] && IDS="C01 C02 C03 C04 C05 C06 C07 C08 C09 C10 C11 C12 C13 C14 C15 C16 C17 C18 C19"
for c in $IDS; do
  echo "=== $c tier=$TIER seed=$SEED $(date +%T)"
  VERIF_SEED=$SEED ./check $c --tier $TIER 2>&1 | grep -E "^C[0-9]+ tier|VIOLATION|HARNESS|KNOWN|violation keys" | cut -c1-400
done
