#!/bin/bash
# usage: tools/try_seed.sh <patch.diff> <ID> [<ID>...]   — applies a seeded change to $VERIF_REPO, runs the baseline suite and
# the given checks (quick tier), and always reverts. Prints one summary line per check.
set -u
PATCH="$1"; shift
cd /verif; . ./env.sh
if ! git -C $VERIF_REPO diff --quiet; then echo "REPO DIRTY - abort"; exit 9; fi
git -C $VERIF_REPO apply "$PATCH" || { echo "PATCH DOES NOT APPLY"; exit 8; }
trap 'git -C $VERIF_REPO apply -R "$PATCH"; git -C $VERIF_REPO status --short | head -3; ./build.sh 0 >/dev/null 2>&1' EXIT
if (cd $VERIF_REPO && go build ./... ) >/dev/null 2>&1; then echo "build: ok"; else echo "build: FAIL"; fi
if ./baseline.sh > /tmp/seed-baseline.log 2>&1; then echo "baseline: pass"; else echo "baseline: FAIL"; grep -v '^ok' /tmp/seed-baseline.log | head -5; fi
for id in "$@"; do
  out=$(./check $id 2>&1); rc=$?
  echo "check $id: exit=$rc :: $(echo "$out" | grep -m1 -E 'VIOLATION|HARNESS' | cut -c1-260)"
  echo "$out" | grep -m1 'violation keys' | cut -c1-300
done
