#!/bin/bash
# Re-checks every kept seeded change: applies it to the repository ($VERIF_REPO, default /repo), runs the baseline suite and the
# checks named in its meta.json, reverts. Prints one line per seed. (Run it from a snapshot with `vp run --with-repo`.)
ROOT="$(cd "$(dirname "$0")/.." && pwd)"
cd "$ROOT"; export VERIF_ROOT="$ROOT"; . ./env.sh
for d in seeded/*/; do
  id=$(basename "$d")
  checks=$(python3 -c "import json;print(' '.join(json.load(open('$d/meta.json'))['checks']))")
  if ! git -C "$VERIF_REPO" apply --check "$ROOT/${d}patch.diff" 2>/dev/null; then echo "$id: PATCH-DOES-NOT-APPLY"; continue; fi
  git -C "$VERIF_REPO" apply "$ROOT/${d}patch.diff"
  if ! ( cd "$VERIF_REPO" && go build ./... ) >/dev/null 2>&1; then
    git -C "$VERIF_REPO" apply -R "$ROOT/${d}patch.diff"; echo "$id: PATCHED-TREE-DOES-NOT-BUILD (re-base the patch)"; continue
  fi
  res=""
  for c in $checks; do
    out=$(./check $c 2>&1); rc=$?
    nv=$(echo "$out" | grep -o 'violations=[0-9]*' | tail -1 | cut -d= -f2)
    res="$res $c=$rc(${nv:-?})"
  done
  git -C "$VERIF_REPO" apply -R "$ROOT/${d}patch.diff"
  caught=no; case "$res" in *=1\(*) caught=yes;; esac
  echo "$id: caught=$caught ($res )"
done
./build.sh 0 >/dev/null 2>&1
