# sourced by ./check and setup: selects the toolchain the repository itself uses (go 1.25.x from the module cache)
unset GOROOT
GG_GOROOT=""
if [ -d /root/go/pkg/mod/golang.org/toolchain@v0.0.1-go1.25.0.linux-amd64 ]; then
  GG_GOROOT=/root/go/pkg/mod/golang.org/toolchain@v0.0.1-go1.25.0.linux-amd64
else
  GG_GOROOT=$(cd "${VERIF_REPO:-/repo}" && env -u GOSUMDB -u GOFLAGS GOTOOLCHAIN=auto go env GOROOT 2>/dev/null)
fi
export GG_GOROOT
export PATH="$GG_GOROOT/bin:$PATH"
export GOTOOLCHAIN=local GOFLAGS=-mod=mod GOPROXY=off GOSUMDB=off GONOSUMDB='*' GONOSUMCHECK=1 GOWORK=off
# a snapshot handed over by `vp run --with-repo` wins over an inherited VERIF_REPO
export VERIF_REPO="${VP_RUN_REPO:-${VERIF_REPO:-/repo}}"
export VERIF_ROOT="${VERIF_ROOT:-/verif}"
export VERIF_BUILD="$VERIF_ROOT/.build"
# a build cache of our own: nothing else on the machine (an agent running `go clean -cache`, another user's go vet
# with other GOGREEMENT_* settings) can pull entries from under a running check or leave stale vet facts in it
export GOCACHE="$VERIF_BUILD/gocache"
