#!/usr/bin/env python3
"""Regenerates /verif/MANIFEST.json from the table below (kept in one place so the manifest is always schema-valid)."""
import json, sys
ALL = ["C%02d" % i for i in range(1, 20)]
# id -> (technique, level text, level note, design ref)
CHECKS = {
 "C16": ("runtime model comparison: real util.IgnoreSet.Contains vs list-scan reference over exhaustively enumerated and random add-histories",
         "Every history of <=3 (quick) / <=4 (thorough) add-operations over the property's alphabet x all queries is executed against the real IgnoreSet and compared with an independent list-scan model; plus random long multi-token histories. Exhaustive inside the stated bound, sampled outside.",
         "trusts go/token.Pos ordering and the harness' own reference code table (copied from the book)", "DESIGN.md §3 C16"),
}

SITE_TXT = "Generated multi-package programs (all statement templates x nestings x contexts x annotation mixes, incl. package-level initialisers, constructor-named functions in other packages, decoys, test and excluded files, a dot-importing file, promoted fields/methods through embedding, method expressions, parenthesised operands/callees/receivers, alias receivers, types inside composite types, const groups, a file whose first uses are suppressed, embedded plain structs and @immutable holders, annotated alias declarations, var groups and multi-name var specs, an unsafe import; 6 configurations) are run through the real gogreement binary; every (line, analyzer) is judged against an independent three-valued reference model (MUST code / NEVER / FREE). Exploration: held on the programs generated for the tier and seed, nothing more."
SITE_NOTE = "trusts the Go toolchain (compile gate), the harness' generator and its reference model (written from the property statements and the book; kept honest by clean sweeps over several seeds and by seeded breakages)"
for pid, an in (("C01","immutabilitychecker"),("C02","constructorchecker"),("C03","testonlychecker"),("C04","packageonlychecker")):
    CHECKS[pid] = ("runtime monitor: diagnostics of %s on generated programs vs per-site reference verdicts" % an, SITE_TXT, SITE_NOTE, "DESIGN.md §2.4, §3 "+pid)

CHECKS["C07"] = ("runtime monitor: one @ignore comment inserted per run of the real binary; diagnostic set vs reference scope model",
  "For diagnostics of all 16 codes in generated programs, one @ignore comment is inserted (trailing / before statement / before enclosing compound statement / before declaration, attached or detached / before the package clause / trailing the package clause or keyword / dangling at the end of a body or of a case clause / trailing a closing line / before the last statement of a clause / at the head of a switch body; in scope and just outside: previous or next line, sibling, other file; 15 code-list shapes, all placement x list pairs walked in a seed-determined permutation) and the real binary is re-run; every (line, analyzer) must match the reference scope model, including TONL01/PKGO01 moving to the next unsuppressed use.",
  SITE_NOTE, "DESIGN.md §3 C07")
CHECKS["C12"] = ("metamorphic runtime monitor: same program model re-rendered in layout variants; diagnostics compared by stable line id and judged by the layout-blind reference model",
  "Each generated program is run in its base layout and in 8 layout variants (declaration permutation, declarations moved between files, blank/comment lines, anti-formatting, local renaming and compositions); diagnostics keyed by stable line id (TONL01/PKGO01: per package and type) must equal the base rendering and the reference model.",
  SITE_NOTE, "DESIGN.md §3 C12")
CHECKS["C13"] = ("metamorphic runtime monitor: type mentions respelled (alias local / third package, parentheses, renamed import); diagnostics compared by line id and judged by the spelling-blind reference model",
  "Each generated program is run with direct spellings and with every type mention of the using packages respelled through a local alias, an alias declared in a third package, parentheses, or renamed imports; the same lines must receive the same codes.",
  SITE_NOTE, "DESIGN.md §3 C13")
CHECKS["C14"] = ("runtime monitor: file of every diagnostic vs independent reference file filter; differential run with excluded files neutralised; per-site model under 8 configurations",
  "Programs with regular, in-package and external test files and pool-token files (containing annotated types, file-level @ignore, violations) are run under scan-tests {off,on} x exclude-paths {empty, default, one, three tokens}: no diagnostic may lie in an excluded file, neutralising all annotations/@ignore inside excluded files must not change any diagnostic, and every line is judged by the reference model (test files never receive TONL).",
  SITE_NOTE, "DESIGN.md §3 C14")

CHECKS["C19"] = ("runtime model comparison: messages produced by the real reporting.Reporter on synthetic files vs excerpt/caret/length oracle",
  "The real Reporter renders every (line length 0..3x limit, column 1..len+1) ASCII case (quick: every 3rd length plus all regime boundaries; thorough: all) and tens of thousands of tab / multi-byte / first-last-only-line / long-context / unreadable / shorter-on-disk / 64KB+ cases; each message is parsed and checked: excerpt = source line or ellipsis + contiguous substring + ellipsis within limit+6 containing the reported character, caret offset in characters with tabs mirrored, context lines are the neighbours, degraded inputs (unreadable file, file shorter than the line by 1..n lines) give a message without excerpt but with the documentation link, and no panic.",
  "trusts go/token position arithmetic; display limit read from reporting.MaxLineLength; East-Asian wide runes and column len+1 are FREE for caret placement", "DESIGN.md §3 C19")

CHECKS["C08"] = ("runtime monitor: diagnostic set of the real binary under exclude-checks=S (flag / env) vs unrestricted run filtered by a reference hierarchy table",
  "Programs producing all 16 codes (with scoped @ignore comments for unrelated codes sprinkled in) are run with S = every single token (ALL, 5 categories, 16 codes, 16 junk tokens; upper and lower case), all category pairs and random subsets in random case/spacing, through the flag and the environment variable; the resulting set must equal the unrestricted set filtered by the reference table.",
  "trusts the harness' reference code table (from the book) and set normalisation", "DESIGN.md §3 C08")
CHECKS["C18"] = ("runtime monitor: fresh process per configuration on a probe module with planted violations; visible set vs reference resolution flag > env > default",
  "A probe module with planted violations (regular file: one per category; _test.go file; file and directory named after pool tokens; file name containing 'testdata') is analysed by one fresh process per configuration: grid {flag absent, empty, value} x {env unset, empty, value} per option over pools of boolean and list spellings, joint random combinations and fuzzed environment strings; the visible plants must equal the reference resolution and parse rules, every process must end normally, and in text mode the exit status must be non-zero exactly when something is printed.",
  "boolean FLAG values restricted to what the flag package accepts; GOGREEMENT_ENV_ONLY unset; reference rules written from the property statement", "DESIGN.md §3 C18")

CHECKS["C15"] = ("runtime model comparison: real annotations.ReadAllAnnotations / ignore.ReadIgnoreAnnotations on synthetic files vs hand-written reference recogniser",
  "Every candidate comment line (8 prefixes x 11 keywords and near-keywords x 4 separators x all argument token sequences of length <=3 quick / <=4 thorough over a 16-token alphabet (incl. a non-ASCII identifier), about 1.7M / 25M lines, plus fuzzed mutations of valid annotations and 17 attachment sites x 6 keywords) is the doc comment of its own type / func / method / field in a synthetic file handed to the real readers; recognised-or-not and the parsed arguments must equal a character-scanner recogniser written from the statement. Exhaustive inside the token bound, sampled outside.",
  "trusts go/parser; recogniser and FREE classes (trailing-comma lists, digit-initial names, white space other than space/tab, non-ASCII characters that are not letters or digits, any non-ASCII in @ignore lists) as in DESIGN.md", "DESIGN.md §3 C15")

CHECKS["C17"] = ("runtime monitor over every diagnostic of all-codes programs: format / table / analyzer / position / help-link checks, re-run with '// @ignore <displayed code>' appended, text-mode exit status vs output",
  "Every diagnostic produced on generated programs covering all 16 codes (default, scan-tests and exclude-paths configurations) is checked against reference tables written from the book (code table, analyzer <-> category, documentation page per category), its position must lie in a non-excluded file of the package being analysed and its excerpt must show the reported line; a sample of diagnostics per code (all those on the last declaration of a file first) is re-run with '// @ignore CODE' appended and the whole result compared with the reference model; the text-mode exit status must be non-zero exactly when something is printed; a module whose positions are remapped by a //line directive to an unreadable file checks code / analyzer / help link without excerpt.",
  SITE_NOTE, "DESIGN.md §3 C17")

CHECKS["C06"] = ("runtime monitor: normalised diagnostic sets of one module under 4 drivers / run sets + gob round trip of every exported fact observed at the Analyzer.Run seam",
  "Generated import DAGs (declaring packages incl. byte-identical twin declarations as in api/v1 vs api/v2, using packages, a transit package, an unrelated annotated package) are analysed by standalone ./..., standalone with only leaf packages named, standalone with random package subsets, go vet -vettool (facts on disk), and the in-process x/tools checker with/without its fact sanity check and sequentially; all per-package diagnostic sets must be equal, every exported fact must survive gob and equal the reader's result, and toggling the annotations of a package must not change packages that do not import it; a history probe replays two go vet runs with different GOGREEMENT_EXCLUDE_PATHS on one private GOCACHE in both orders against the standalone driver (known finding).",
  "trusts go vet/unitchecker and the x/tools checker; instrumentation wraps the exported analyzers inside the harness process only", "DESIGN.md §3 C06")
CHECKS["C09"] = ("runtime monitor: diagnostic count on unannotated real-world corpora and on near-miss-salted generated programs must be zero",
  "(a) Packages of the Go standard library and of the repository's dependencies that pass a precondition scan are analysed by the real binary under 2 (quick) / 3 (thorough) configurations; (b) generated multi-package programs whose every annotation is replaced by one of 12 near-miss shapes (mid-sentence, block comment, other letter case, longer word, commented-out, detached, ...) while all would-be violations stay. Any diagnostic is a violation.",
  "precondition scanner of the harness; module-cache corpora are analysed with -test=false because their test dependencies are not in the offline cache", "DESIGN.md §3 C09")

CHECKS["C11"] = ("runtime monitor + Go race detector: diagnostic sets across schedules (repeats, sequential, GOMAXPROCS, argument order, perturbed in-process schedules) must be identical; race-detector builds must report zero DATA RACE blocks",
  "Generated modules with @ignore comments in every package are analysed under 3 configurations (incl. non-empty exclude-checks) and ~13 schedules each: 3 repeats, -debug=p, GOMAXPROCS 1/4, 2 argument permutations, the in-process driver with PRNG yields/sleeps at every Analyzer.Run entry (one of them under -race), the -race binary, and 4 concurrent Analyze calls in one -race process; all (file,line,col,analyzer,message) sets must equal the first parallel run, and no DATA RACE block may be logged (GORACE log_path, blocks counted and de-duplicated by top frames). Evidence records overlapping actions and distinct completion orders actually seen. In addition 4 fixed two-package modules in which a //line directive maps a diagnostic of one package into a file of an unrelated one: the per-package diagnostics of 7 joint runs (both listing orders, sequential and parallel, ./...) must equal those of the solo runs.",
  "the race detector only sees code the workloads execute concurrently; vet-driver schedules are process-level and not perturbed", "DESIGN.md §3 C11")

CHECKS["C10"] = ("runtime termination monitor: exit status / stderr / analyzer errors / CPU time of the real binary and of go vet -vettool on annotation-injected real-world code, exotic generated programs and fuzzed comments",
  "(a) yaml.v3, testify, go-spew, go-difflib and a set of x/tools packages are copied, annotations of every kind (incl. @implements with existing / missing / unimported / self targets, @constructor naming existing and missing functions, @mutable on fields, @ignore comments) are injected above PRNG-chosen declarations in several rounds at rates 5-40%, and the copies are analysed in json and text mode, default and scan-tests, plus go vet -vettool where tests compile offline; (b) generated programs containing every FREE shape and a file of exotic valid Go (generics, embedding, aliases of predeclared types, labels, method expressions, channel/select/range assignments) with package-level initialisers in every position, both drivers; (c) modules with thousands of fuzzed '@keyword<bytes>' doc comments. Every run must end with its diagnostics status, without panic / fatal error / internal error / analyzer error, within the CPU bound.",
  "hang bound on child CPU time (300 s); wall-clock watchdog only yields 'inconclusive'; the std-library overlay workload runs the real analyzers in-process inside a second harness binary built with go1.26.8 (the only toolchain whose GOROOT accepts overlays), not through the gogreement binary; strace fault injection is not built", "DESIGN.md §3 C10")

CHECKS["C05"] = ("runtime differential monitor: IMPL01/02/03 (+ listed methods) of the real binary vs go/types (method sets, types.Identical, import binding) on the same generated module",
  "Generated (type, interface) pairs over a signature grammar (basic incl. byte/uint8, rune/int32, any/interface{}; named local / imported / same-named from packages with equal names; pointers, slices, arrays, maps, funcs, chans with direction, variadics, aliases; value / pointer receivers; promotion through embedded E, *E and embedded interfaces; interface embedding; T an interface or non-struct; interface in the same package / imported / under alias / from a package whose name differs from its directory; & or not; unimported, missing, non-interface targets, blank / renamed / raw-string imports, alias declarations as T, several annotation lines per type, sibling files binding one qualifier to different packages, anonymous struct parameter types differing by a tag, the qualifier _), each an exact copy or a single-edit mutation of the interface's signatures, are analysed by the real binary; code and listed methods must equal what go/types says about the same module (cross-checked against types.Implements).",
  "go/types is the reference for 'Go's own type checker'; generics are FREE; a qualifier that matches only the last path element of an import is demanded as IMPL01 and listed as a known finding", "DESIGN.md §3 C05")

PENDING_REASON = "monitor for this property is still under construction in this round (designed in DESIGN.md §3; not claimed until its check is silent on the unchanged tree)"
def main():
    checks = []
    for pid in ALL:
        if pid not in CHECKS: continue
        tech, text, note, ref = CHECKS[pid]
        checks.append({
            "property_id": pid,
            "quick_cmd": "./check %s --tier quick" % pid,
            "thorough_cmd": "./check %s --tier thorough" % pid,
            "evidence_file": "/verif/evidence/%s.json" % pid,
            "replay_cmd_template": "./check %s --replay {path}" % pid,
            "engine": "vcheck",
            "level_claimed": {"category": "exploration", "text": text, "design_ref": ref},
            "level_note": note,
            "technique": tech,
        })
    m = {
        "version": 1,
        "setup_cmd": "./build.sh 1",
        "hooks": {
            "guard": "verif",
            "enable": "go build -tags verif (build.sh); currently no file in /repo uses the tag - all instrumentation wraps exported analyzers inside the harness",
            "baseline_off_cmd": "/verif/baseline.sh",
            "source_commits": [],
            "add_only": True,
        },
        "engines": [{"name": "vcheck", "path": "/verif/harness", "serves_properties": sorted(CHECKS),
                     "kind_free_text": "Go harness: runs the real gogreement binary / analyzers / package APIs on generated, real-world and hostile workloads and compares observed events with independent reference oracles (runtime monitoring)"}],
        "checks": checks,
        "not_applicable": [{"property_id": p, "reason": PENDING_REASON} for p in ALL if p not in CHECKS],
        "notes": "All checks: ./check <ID> --tier quick|thorough. exit 0 held / 1 VIOLATION / 2 HARNESS-ERROR (inconclusive). Known findings: /verif/known_findings.json.",
    }
    json.dump(m, open("/verif/MANIFEST.json", "w"), indent=1)
    print("checks:", len(checks), "pending:", len(m["not_applicable"]))
main()
